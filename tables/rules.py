"""Engine T: the published holiday rules of a calendar (pandas `Holiday(...)` constructors in <name>_script.py)
translated into SMT predicates over a symbolic day number; civil arithmetic and the Gregorian computus are written
with integer div/mod, independently of chrono and of the tables."""
import ast, datetime, os, re
import z3

EPOCH = datetime.date(1970, 1, 1)
D0, D1 = 0, (datetime.date(2200, 12, 31) - EPOCH).days      # pandas' default generation window
WD = {"MO": 0, "TU": 1, "WE": 2, "TH": 3, "FR": 4, "SA": 5, "SU": 6}
OBSERVANCES = ("next_monday", "next_monday_or_tuesday", "sunday_to_monday", "nearest_workday")


class Rule:
    def __init__(self):
        self.name = ""; self.month = None; self.day = None; self.year = None
        self.observance = None; self.offset = None; self.start = None; self.end = None
        self.unknown = None

    def __repr__(self):
        return f"Rule({self.name!r}, {self.month}/{self.day}, year={self.year}, obs={self.observance}, off={self.offset}, [{self.start},{self.end}], unknown={self.unknown})"


def _dt(node):
    """datetime(Y, M, D) call -> day number"""
    if isinstance(node, ast.Call) and getattr(node.func, "id", getattr(node.func, "attr", "")) in ("datetime", "Timestamp"):
        a = [ast.literal_eval(x) for x in node.args[:3]]
        return (datetime.date(*a) - EPOCH).days
    raise ValueError("date expression")


def parse_script(path):
    tree = ast.parse(open(path).read())
    rules = []
    for node in ast.walk(tree):
        if isinstance(node, ast.Assign) and any(getattr(t, "id", None) == "RULES" for t in node.targets):
            for el in node.value.elts:
                r = Rule()
                if not (isinstance(el, ast.Call) and getattr(el.func, "id", "") == "Holiday"):
                    r.unknown = "not a Holiday(...) constructor: " + ast.unparse(el)[:60]
                    rules.append(r); continue
                r.name = ast.literal_eval(el.args[0]) if el.args else ""
                for kw in el.keywords:
                    try:
                        if kw.arg in ("month", "day", "year"):
                            setattr(r, kw.arg, ast.literal_eval(kw.value))
                        elif kw.arg == "start_date":
                            r.start = _dt(kw.value)
                        elif kw.arg == "end_date":
                            r.end = _dt(kw.value)
                        elif kw.arg == "observance":
                            nm = getattr(kw.value, "id", None)
                            if nm in OBSERVANCES:
                                r.observance = nm
                            else:
                                r.unknown = "observance " + ast.unparse(kw.value)
                        elif kw.arg == "offset":
                            v = kw.value
                            if isinstance(v, ast.Call) and getattr(v.func, "id", "") == "DateOffset":
                                k = v.keywords[0]
                                assert k.arg == "weekday"
                                r.offset = ("weekday", WD[k.value.func.id], ast.literal_eval(k.value.args[0]))
                            elif isinstance(v, ast.List) and len(v.elts) == 2 and getattr(v.elts[0].func, "id", "") == "Easter" and getattr(v.elts[1].func, "id", "") == "Day":
                                r.offset = ("easter", ast.literal_eval(v.elts[1].args[0]))
                            else:
                                r.unknown = "offset " + ast.unparse(v)
                        else:
                            r.unknown = "keyword " + kw.arg
                    except Exception as e:
                        r.unknown = f"{kw.arg}: {e}"
                rules.append(r)
    return rules


# ------------------------------------------------------------------ SMT arithmetic
def dfc(y, m, d):
    """days_from_civil for z3 Int y and python ints m, d"""
    yy = y - 1 if m <= 2 else y
    era = yy / 400
    yoe = yy - era * 400
    mp = (m + 9) % 12
    doy = (153 * mp + 2) // 5 + d - 1
    doe = yoe * 365 + yoe / 4 - yoe / 100 + doy
    return era * 146097 + doe - 719468


def year_of(dn):
    z = dn + 719468
    era = z / 146097
    doe = z - era * 146097
    yoe = (doe - doe / 1460 + doe / 36524 - doe / 146096) / 365
    y = yoe + era * 400
    doy = doe - (365 * yoe + yoe / 4 - yoe / 100)
    mp = (5 * doy + 2) / 153
    return z3.If(mp < 10, y, y + 1)


def wd(dn):
    return (dn + 3) % 7


def easter(y):
    """day number of Easter Sunday (anonymous Gregorian algorithm)"""
    a = y % 19; b = y / 100; c = y % 100
    d = b / 4; e = b % 4; f = (b + 8) / 25; g = (b - f + 1) / 3
    h = (19 * a + b - d - g + 15) % 30
    i = c / 4; k = c % 4
    l = (32 + 2 * e + 2 * i - h - k) % 7
    m = (a + 11 * h + 22 * l) / 451
    n = h + l - 7 * m + 114
    month = n / 31; day = n % 31 + 1
    return dfc(y, 3, 1) + (month - 3) * 31 + day - 1


def observed(rule, y):
    """z3 term: the observed date of `rule` generated for reference year y (z3 Int)"""
    ref = dfc(y, rule.month, rule.day)
    t = ref
    if rule.offset:
        if rule.offset[0] == "easter":
            t = easter(y) + rule.offset[1]
        else:
            _, w, n = rule.offset
            if n > 0:
                t = ref + (w - wd(ref)) % 7 + 7 * (n - 1)
            else:
                t = ref - (wd(ref) - w) % 7 - 7 * (-n - 1)
    o = rule.observance
    w_ = wd(t)
    if o == "next_monday":
        t = z3.If(w_ == 5, t + 2, z3.If(w_ == 6, t + 1, t))
    elif o == "next_monday_or_tuesday":
        t = z3.If(z3.Or(w_ == 5, w_ == 6), t + 2, z3.If(w_ == 0, t + 1, t))
    elif o == "sunday_to_monday":
        t = z3.If(w_ == 6, t + 1, t)
    elif o == "nearest_workday":
        t = z3.If(w_ == 5, t - 1, z3.If(w_ == 6, t + 1, t))
    return t


def rule_holds(rule, d, y):
    """d (z3 Int day number, with y = year_of(d)) is a holiday by `rule`"""
    alts = []
    for yy in ((y,) if rule.year is not None else (y - 1, y, y + 1)):
        if rule.year is not None:
            yy = z3.IntVal(rule.year)
        t = observed(rule, yy)
        c = [d == t, t >= D0, t <= D1]
        if rule.start is not None:
            c.append(t >= rule.start)
        if rule.end is not None:
            c.append(t <= rule.end)
        alts.append(z3.And(*c))
    return z3.Or(*alts)


def in_table(d, days):
    """balanced disjunction d in {days}"""
    days = sorted(days)
    if not days:
        return z3.BoolVal(False)
    def rec(lo, hi):
        if hi - lo <= 8:
            return z3.Or(*[d == k for k in days[lo:hi]])
        mid = (lo + hi) // 2
        return z3.If(d < days[mid], rec(lo, mid), rec(mid, hi))
    return rec(0, len(days))


def day_to_iso(dn):
    return (EPOCH + datetime.timedelta(days=int(dn))).isoformat()


def year_bounds(y):
    return (datetime.date(y, 1, 1) - EPOCH).days, (datetime.date(y, 12, 31) - EPOCH).days
