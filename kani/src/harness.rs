//! Kani proof harnesses. Symbolic inputs are drawn in a FIXED order with fixed-width types so the
//! counterexample byte vectors printed by `--concrete-playback=print` can be decoded by ../check
//! (schema per harness in ../specs/kani_schema.json) and replayed natively by `src/bin/replay.rs`.
//!
//! Stubs (part of every claim): `pyo3::PyErr::new` -> zeroed error token (the error VALUE is never
//! inspected, only is_err()), `std::panic::catch_unwind` -> direct call (Kani 0.68 ICEs on the
//! intrinsic). Unwinding assertions stay on: a too-small bound fails the harness.
use crate::props::*;
use std::panic::catch_unwind;

pub fn stub_new<T: pyo3::type_object::PyTypeInfo, A: pyo3::PyErrArguments + Send + Sync + 'static>(args: A) -> pyo3::PyErr {
    std::mem::forget(args);
    unsafe { std::mem::zeroed() }
}
pub fn my_cu<F: FnOnce() -> R + std::panic::UnwindSafe, R>(f: F) -> std::thread::Result<R> {
    Ok(f())
}

macro_rules! harness {
    ($name:ident, $unwind:expr, |$($v:ident : $t:ty),*| pre $pre:expr, chk $chk:expr, cover $cov:expr) => {
        #[kani::proof]
        #[kani::unwind($unwind)]
        #[kani::stub(pyo3::PyErr::new, stub_new)]
        #[kani::stub(catch_unwind, my_cu)]
        fn $name() {
            $(let $v: $t = kani::any();)*
            kani::assume($pre);
            kani::cover!($cov, "vacuity witness");
            let r: Result<(), &'static str> = $chk;
            assert!(r.is_ok(), "property");
        }
    };
}

harness!(c08_add_months, 6, |y: i32, m: u32, d: u32, months: i32, rk: u8, rd: u32, mk_: u8|
    pre pre_add_months(y, m, d, months, rk, rd, mk_),
    chk chk_add_months(y, m, d, months, rk, rd, mk_),
    cover months < -13 && rk == 4);
harness!(c08_imm, 6, |y: i32, m: u32| pre pre_ym(y, m), chk chk_imm(y, m), cover y == 2200 && m == 12);
harness!(c08_eom, 6, |y: i32, m: u32| pre pre_ym(y, m), chk chk_eom(y, m), cover y == 2100 && m == 2);
harness!(c08_is_imm_eom, 6, |y: i32, m: u32, d: u32| pre pre_ymd(y, m, d), chk chk_is_imm_eom(y, m, d), cover d == 29 && m == 2);
harness!(c08_leap, 2, |y: i32| pre (1970..=2200).contains(&y), chk chk_leap(y), cover y == 2100);
harness!(c08_get_roll, 6, |y: i32, m: u32, rk: u8, rd: u32| pre pre_get_roll(y, m, rk, rd), chk chk_get_roll(y, m, rk, rd), cover rk == 0);

macro_rules! index_left_harness {
    ($name:ident, $n:expr) => {
        #[kani::proof]
        #[kani::unwind(11)]
        fn $name() {
            let xs: [i64; $n] = kani::any();
            let v: i64 = kani::any();
            kani::assume(pre_index_left(&xs));
            kani::cover!(v == xs[$n - 1], "vacuity witness");
            assert!(chk_index_left(&xs, v).is_ok(), "property");
        }
    };
}
index_left_harness!(c11_index_left_2, 2);
index_left_harness!(c11_index_left_3, 3);
index_left_harness!(c11_index_left_4, 4);
index_left_harness!(c11_index_left_5, 5);
index_left_harness!(c11_index_left_6, 6);
index_left_harness!(c11_index_left_7, 7);
index_left_harness!(c11_index_left_8, 8);
index_left_harness!(c11_index_left_9, 9);

harness!(c20_add_days_total, 6, |a: u8, days: i8, mk_: u8, st: bool| pre pre_tot(a, mk_), chk chk_add_days_total(a, days, mk_, st), cover days == 127);
harness!(c20_add_bus_days_total, 130, |a: u8, days: i8, st: bool| pre pre_tot(a, 0), chk chk_add_bus_days_total(a, days, st), cover days == -128);
harness!(c20_lag_total, 130, |a: u8, days: i8, st: bool| pre pre_tot(a, 0), chk chk_lag_total(a, days, st), cover days == 127);


// IEEE-exact harnesses: inputs are raw 64-bit patterns; `RandomState::new` (getrandom) is stubbed with a fixed key,
// which is sound here because no clause depends on hash values (the numbers carry no variables).
pub fn stub_rs() -> std::hash::RandomState { unsafe { std::mem::zeroed() } }
macro_rules! harness_f {
    ($name:ident, $unwind:expr, |$($v:ident : $t:ty),*| pre $pre:expr, chk $chk:expr, cover $cov:expr) => {
        #[kani::proof]
        #[kani::unwind($unwind)]
        #[kani::stub(std::hash::RandomState::new, stub_rs)]
        fn $name() {
            $(let $v: $t = kani::any();)*
            kani::assume($pre);
            kani::cover!($cov, "vacuity witness");
            let r: Result<(), &'static str> = $chk;
            assert!(r.is_ok(), "property");
        }
    };
}
harness_f!(c19_ord_ieee_dual, 4, |xb: u64, yb: u64| pre true, chk chk_ord_dual(xb, yb), cover xb == 0x8000_0000_0000_0000 && yb == 0);
harness_f!(c19_ord_ieee_dual2, 4, |xb: u64, yb: u64| pre true, chk chk_ord_dual2(xb, yb), cover xb == 0x7ff8_0000_0000_0000 && yb == 0x3ff0_0000_0000_0000);
harness_f!(c19_ord_ieee_number, 4, |xb: u64, yb: u64, ka: u8, kb: u8| pre pre_ord_number(ka, kb), chk chk_ord_number(xb, yb, ka, kb), cover ka == 2 && kb == 0 && xb == 0x8000_0000_0000_0000 && yb == 0);
