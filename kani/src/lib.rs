//! Property functions shared by the Kani proof harnesses (symbolic inputs, decided by CBMC)
//! and by the native replay binary (concrete inputs decoded from a counterexample).
//!
//! Every property is a pair `pre_*` (the stated bound / validity predicate of the inputs) and
//! `chk_*` (runs the real rateslib code and compares with an oracle written here, independently
//! of the code under test). `chk_*` returns Err(code) instead of asserting so that the native
//! replay can report the failing clause.

pub mod props;
#[cfg(kani)]
mod harness;
