//! Native replay of a Kani counterexample: `replay <harness> <int>...` (same order as the harness
//! draws its symbolic inputs). Exit 0 = property holds on this input, 1 = violated (message on
//! stdout), 3 = input outside the stated precondition, 4 = usage.
use std::panic::{catch_unwind, AssertUnwindSafe};
use vkani::props::*;

fn main() {
    let a: Vec<String> = std::env::args().skip(1).collect();
    if a.is_empty() { eprintln!("usage: replay <harness> <ints>"); std::process::exit(4); }
    let v: Vec<i64> = a[1..].iter().map(|s| s.parse::<i128>().expect("int") as i64).collect();
    let h = a[0].as_str();
    let r = catch_unwind(AssertUnwindSafe(|| -> Option<Result<(), &'static str>> {
        let g = |i: usize| v[i];
        Some(match h {
            "c08_add_months" => { if !pre_add_months(g(0) as i32, g(1) as u32, g(2) as u32, g(3) as i32, g(4) as u8, g(5) as u32, g(6) as u8) { return None; } chk_add_months(g(0) as i32, g(1) as u32, g(2) as u32, g(3) as i32, g(4) as u8, g(5) as u32, g(6) as u8) }
            "c08_imm" => { if !pre_ym(g(0) as i32, g(1) as u32) { return None; } chk_imm(g(0) as i32, g(1) as u32) }
            "c08_eom" => { if !pre_ym(g(0) as i32, g(1) as u32) { return None; } chk_eom(g(0) as i32, g(1) as u32) }
            "c08_is_imm_eom" => { if !pre_ymd(g(0) as i32, g(1) as u32, g(2) as u32) { return None; } chk_is_imm_eom(g(0) as i32, g(1) as u32, g(2) as u32) }
            "c08_leap" => { if !(1970..=2200).contains(&(g(0) as i32)) { return None; } chk_leap(g(0) as i32) }
            "c08_get_roll" => { if !pre_get_roll(g(0) as i32, g(1) as u32, g(2) as u8, g(3) as u32) { return None; } chk_get_roll(g(0) as i32, g(1) as u32, g(2) as u8, g(3) as u32) }
            "c20_add_days_total" => { if !pre_tot(g(0) as u8, g(2) as u8) { return None; } chk_add_days_total(g(0) as u8, g(1) as i8, g(2) as u8, g(3) != 0) }
            "c20_add_bus_days_total" => { if !pre_tot(g(0) as u8, 0) { return None; } chk_add_bus_days_total(g(0) as u8, g(1) as i8, g(2) != 0) }
            "c20_lag_total" => { if !pre_tot(g(0) as u8, 0) { return None; } chk_lag_total(g(0) as u8, g(1) as i8, g(2) != 0) }
            "c19_ord_ieee_dual" => chk_ord_dual(g(0) as u64, g(1) as u64),
            "c19_ord_ieee_dual2" => chk_ord_dual2(g(0) as u64, g(1) as u64),
            "c19_ord_ieee_number" => { if !pre_ord_number(g(2) as u8, g(3) as u8) { return None; } chk_ord_number(g(0) as u64, g(1) as u64, g(2) as u8, g(3) as u8) }
            _ if h.starts_with("c11_index_left_") => {
                let n: usize = h.rsplit('_').next().unwrap().parse().unwrap();
                let xs: Vec<i64> = v[..n].to_vec();
                if !pre_index_left(&xs) { return None; }
                chk_index_left(&xs, v[n])
            }
            _ => { eprintln!("unknown harness {h}"); std::process::exit(4); }
        })
    }));
    match r {
        Err(_) => { println!("REPLAY violated: panic (abort) inside the code under test"); std::process::exit(1); }
        Ok(None) => { println!("REPLAY precondition-false"); std::process::exit(3); }
        Ok(Some(Ok(()))) => { println!("REPLAY holds"); std::process::exit(0); }
        Ok(Some(Err(m))) => { println!("REPLAY violated: {m}"); std::process::exit(1); }
    }
}
