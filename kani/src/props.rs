use chrono::prelude::*;
use rateslib::calendars::{get_eom, get_imm, get_roll, is_eom, is_imm, is_leap_year};
use rateslib::calendars::{DateRoll, Modifier, RollDay};

/// A calendar in which every day is a business and settlement day (adjustment = identity).
pub struct AllBus;
impl DateRoll for AllBus {
    fn is_weekday(&self, _d: &NaiveDateTime) -> bool { true }
    fn is_holiday(&self, _d: &NaiveDateTime) -> bool { false }
    fn is_settlement(&self, _d: &NaiveDateTime) -> bool { true }
}

// ---------- independent civil-calendar oracle (no chrono) ----------
pub fn o_is_leap(y: i32) -> bool { (y % 4 == 0 && y % 100 != 0) || y % 400 == 0 }
pub fn o_mlen(y: i32, m: u32) -> u32 {
    match m { 1 | 3 | 5 | 7 | 8 | 10 | 12 => 31, 4 | 6 | 9 | 11 => 30, _ => if o_is_leap(y) { 29 } else { 28 } }
}
/// days since 1970-01-01 (Hinnant's days_from_civil), valid for y in [1600, 2400]
pub fn o_days(y: i32, m: u32, d: u32) -> i64 {
    let y = if m <= 2 { y - 1 } else { y } as i64;
    let era = y / 400; // y >= 0 here
    let yoe = y - era * 400;
    let mp = (m as i64 + 9) % 12;
    let doy = (153 * mp + 2) / 5 + d as i64 - 1;
    let doe = yoe * 365 + yoe / 4 - yoe / 100 + doy;
    era * 146097 + doe - 719468
}
/// 0 = Monday .. 6 = Sunday
pub fn o_wd(y: i32, m: u32, d: u32) -> u32 { ((o_days(y, m, d) + 3).rem_euclid(7)) as u32 }
pub fn o_imm_day(y: i32, m: u32) -> u32 {
    // third Wednesday = first day >= 15 that is a Wednesday (wd == 2)
    let w15 = o_wd(y, m, 15);
    15 + (2 + 7 - w15) % 7
}

pub fn mk(y: i32, m: u32, d: u32) -> NaiveDateTime {
    NaiveDate::from_ymd_opt(y, m, d).unwrap().and_hms_opt(0, 0, 0).unwrap()
}
pub fn modifier(k: u8) -> Modifier {
    match k { 0 => Modifier::Act, 1 => Modifier::F, 2 => Modifier::ModF, 3 => Modifier::P, _ => Modifier::ModP }
}
pub fn rollday(k: u8, day: u32) -> RollDay {
    match k { 0 => RollDay::Unspecified {}, 1 => RollDay::Int { day }, 2 => RollDay::EoM {}, 3 => RollDay::SoM {}, _ => RollDay::IMM {} }
}

// ---------- C08 : add_months ----------
pub fn pre_add_months(y: i32, m: u32, d: u32, months: i32, rk: u8, rd: u32, mk_: u8) -> bool {
    if !(1970..=2200).contains(&y) || !(1..=12).contains(&m) || d < 1 || d > o_mlen(y, m) { return false; }
    if rk > 4 || mk_ > 4 || rd < 1 || rd > 31 { return false; }
    if !(-2772..=2772).contains(&months) { return false; }
    let tot = y * 12 + (m as i32 - 1) + months;
    let ny = tot.div_euclid(12);
    (1970..=2200).contains(&ny)
}
pub fn chk_add_months(y: i32, m: u32, d: u32, months: i32, rk: u8, rd: u32, mk_: u8) -> Result<(), &'static str> {
    let date = mk(y, m, d);
    let got = AllBus.add_months(&date, months, &modifier(mk_), &rollday(rk, rd), false);
    let tot = y * 12 + (m as i32 - 1) + months;
    let ny = tot.div_euclid(12);
    let nm = (tot.rem_euclid(12) + 1) as u32;
    let want_day = match rk {
        0 => d.min(o_mlen(ny, nm)),
        1 => rd.min(o_mlen(ny, nm)),
        2 => o_mlen(ny, nm),
        3 => 1,
        _ => o_imm_day(ny, nm),
    };
    if got.year() != ny { return Err("add_months: wrong year"); }
    if got.month() != nm { return Err("add_months: wrong month"); }
    if got.day() != want_day { return Err("add_months: wrong day"); }
    if got.hour() != 0 || got.minute() != 0 || got.second() != 0 { return Err("add_months: time of day"); }
    // settlement flag is irrelevant on a calendar where every day settles
    let got2 = AllBus.add_months(&date, months, &modifier(mk_), &rollday(rk, rd), true);
    if got2 != got { return Err("add_months: settlement flag changed result on all-business calendar"); }
    Ok(())
}

// ---------- C08 : IMM / EoM / leap / get_roll ----------
pub fn pre_ym(y: i32, m: u32) -> bool { (1970..=2200).contains(&y) && (1..=12).contains(&m) }
pub fn chk_imm(y: i32, m: u32) -> Result<(), &'static str> {
    let i = get_imm(y, m);
    if i.year() != y || i.month() != m { return Err("get_imm: wrong month"); }
    if i.day() < 15 || i.day() > 21 { return Err("get_imm: day outside 15..21"); }
    if i.weekday() != Weekday::Wed { return Err("get_imm: not a Wednesday (chrono)"); }
    if i.day() != o_imm_day(y, m) { return Err("get_imm: not the third Wednesday (oracle)"); }
    if !is_imm(&i) { return Err("is_imm(get_imm) false"); }
    Ok(())
}
pub fn pre_ymd(y: i32, m: u32, d: u32) -> bool { pre_ym(y, m) && d >= 1 && d <= o_mlen(y, m) }
pub fn chk_is_imm_eom(y: i32, m: u32, d: u32) -> Result<(), &'static str> {
    let dt = mk(y, m, d);
    if is_imm(&dt) != (d == o_imm_day(y, m)) { return Err("is_imm disagrees with oracle"); }
    if is_eom(&dt) != (d == o_mlen(y, m)) { return Err("is_eom disagrees with oracle"); }
    Ok(())
}
pub fn chk_eom(y: i32, m: u32) -> Result<(), &'static str> {
    let e = get_eom(y, m);
    if e.year() != y || e.month() != m { return Err("get_eom: wrong month"); }
    if e.day() != o_mlen(y, m) { return Err("get_eom: not last day"); }
    if !is_eom(&e) { return Err("is_eom(get_eom) false"); }
    Ok(())
}
pub fn chk_leap(y: i32) -> Result<(), &'static str> {
    if is_leap_year(y) != o_is_leap(y) { return Err("is_leap_year disagrees with Gregorian rule"); }
    Ok(())
}
pub fn pre_get_roll(y: i32, m: u32, rk: u8, rd: u32) -> bool { pre_ym(y, m) && rk <= 4 && (1..=31).contains(&rd) }
pub fn chk_get_roll(y: i32, m: u32, rk: u8, rd: u32) -> Result<(), &'static str> {
    let r = get_roll(y, m, &rollday(rk, rd));
    match (rk, r) {
        (0, Ok(_)) => Err("get_roll(Unspecified) must be Err"),
        (0, Err(e)) => { std::mem::forget(e); Ok(()) }
        (_, Err(e)) => { std::mem::forget(e); Err("get_roll returned Err for a specified roll") }
        (_, Ok(dt)) => {
            let want = match rk { 1 => rd.min(o_mlen(y, m)), 2 => o_mlen(y, m), 3 => 1, _ => o_imm_day(y, m) };
            if dt.year() != y || dt.month() != m || dt.day() != want { Err("get_roll: wrong date") } else { Ok(()) }
        }
    }
}

// ---------- C11 : interval selection ----------
pub fn pre_index_left(xs: &[i64]) -> bool {
    let mut i = 1;
    while i < xs.len() { if xs[i - 1] >= xs[i] { return false; } i += 1; }
    xs.len() >= 2
}
pub fn o_index_left(xs: &[i64], v: i64) -> usize {
    // interval whose right end is the first key >= v, clamped to [0, n-2]
    let n = xs.len();
    let mut j = 1; // candidate right end index
    while j < n - 1 && xs[j] < v { j += 1; }
    j - 1
}
pub fn chk_index_left(xs: &[i64], v: i64) -> Result<(), &'static str> {
    let got = rateslib::verif_hooks::index_left(xs, &v);
    if got != o_index_left(xs, v) { return Err("index_left: wrong interval"); }
    Ok(())
}

// ---------- C20 : date arithmetic totality on a gap-0 calendar ----------
/// anchor dates: ordinary day, month end, leap day, year end, range ends
pub const ANCHORS: [(i32, u32, u32); 6] = [(2024, 2, 29), (2015, 9, 7), (1999, 12, 31), (2100, 3, 1), (1970, 7, 1), (2200, 6, 30)];
pub fn pre_tot(a: u8, mk_: u8) -> bool { (a as usize) < ANCHORS.len() && mk_ <= 4 }
pub fn chk_add_days_total(a: u8, days: i8, mk_: u8, settlement: bool) -> Result<(), &'static str> {
    let (y, m, d) = ANCHORS[a as usize];
    let date = mk(y, m, d);
    let got = AllBus.add_days(&date, days, &modifier(mk_), settlement);
    let want = o_days(y, m, d) + days as i64;
    if o_days(got.year(), got.month(), got.day()) != want { return Err("add_days: wrong date on all-business calendar"); }
    Ok(())
}
pub fn chk_add_bus_days_total(a: u8, days: i8, settlement: bool) -> Result<(), &'static str> {
    let (y, m, d) = ANCHORS[a as usize];
    let date = mk(y, m, d);
    match AllBus.add_bus_days(&date, days, settlement) {
        Err(e) => { std::mem::forget(e); Err("add_bus_days: Err on a business day") }
        Ok(got) => {
            if o_days(got.year(), got.month(), got.day()) != o_days(y, m, d) + days as i64 { Err("add_bus_days: wrong date on all-business calendar") } else { Ok(()) }
        }
    }
}
pub fn chk_lag_total(a: u8, days: i8, settlement: bool) -> Result<(), &'static str> {
    let (y, m, d) = ANCHORS[a as usize];
    let date = mk(y, m, d);
    let got = AllBus.lag(&date, days, settlement);
    if o_days(got.year(), got.month(), got.day()) != o_days(y, m, d) + days as i64 { return Err("lag: wrong date on all-business calendar"); }
    Ok(())
}


// ------------------------------------------------------------------------------------------------
// IEEE-exact clauses (C19 ordering).  Inputs are raw bit patterns so
// that NaNs, signed zeros, subnormals and infinities are all in scope.  Numbers carry NO variables
// (the clause is about the value only); `RandomState::new` is stubbed in the harness.
use rateslib::dual::{Dual, Dual2, Number};

pub fn chk_ord_dual(xb: u64, yb: u64) -> Result<(), &'static str> {
    let (x, y) = (f64::from_bits(xb), f64::from_bits(yb));
    let a = Dual::new(x, Vec::new());
    let b = Dual::new(y, Vec::new());
    let mut r = Ok(());
    if a.partial_cmp(&b) != x.partial_cmp(&y) { r = Err("Dual vs Dual ordering differs from the ordering of the values"); }
    if (a < b) != (x < y) || (a <= b) != (x <= y) || (a > b) != (x > y) || (a >= b) != (x >= y) { r = Err("Dual vs Dual comparison operators differ from the float operators"); }
    if a.partial_cmp(&y) != x.partial_cmp(&y) { r = Err("Dual vs float ordering differs"); }
    if x.partial_cmp(&b) != x.partial_cmp(&y) { r = Err("float vs Dual ordering differs"); }
    std::mem::forget(a);
    std::mem::forget(b);
    r
}
pub fn chk_ord_dual2(xb: u64, yb: u64) -> Result<(), &'static str> {
    let (x, y) = (f64::from_bits(xb), f64::from_bits(yb));
    let a = Dual2::new(x, Vec::new());
    let b = Dual2::new(y, Vec::new());
    let mut r = Ok(());
    if a.partial_cmp(&b) != x.partial_cmp(&y) { r = Err("Dual2 vs Dual2 ordering differs from the ordering of the values"); }
    if (a < b) != (x < y) || (a <= b) != (x <= y) || (a > b) != (x > y) || (a >= b) != (x >= y) { r = Err("Dual2 vs Dual2 comparison operators differ from the float operators"); }
    if a.partial_cmp(&y) != x.partial_cmp(&y) { r = Err("Dual2 vs float ordering differs"); }
    if x.partial_cmp(&b) != x.partial_cmp(&y) { r = Err("float vs Dual2 ordering differs"); }
    std::mem::forget(a);
    std::mem::forget(b);
    r
}
fn mk_number(kind: u8, x: f64) -> Number {
    match kind { 0 => Number::F64(x), 1 => Number::Dual(Dual::new(x, Vec::new())), _ => Number::Dual2(Dual2::new(x, Vec::new())) }
}
pub fn pre_ord_number(ka: u8, kb: u8) -> bool { ka <= 2 && kb <= 2 && !(ka == 1 && kb == 2) && !(ka == 2 && kb == 1) }
pub fn chk_ord_number(xb: u64, yb: u64, ka: u8, kb: u8) -> Result<(), &'static str> {
    let (x, y) = (f64::from_bits(xb), f64::from_bits(yb));
    let a = mk_number(ka, x);
    let b = mk_number(kb, y);
    let mut r = Ok(());
    if a.partial_cmp(&b) != x.partial_cmp(&y) { r = Err("Number vs Number ordering differs from the ordering of the values"); }
    if a.partial_cmp(&y) != x.partial_cmp(&y) { r = Err("Number vs float ordering differs"); }
    if x.partial_cmp(&b) != x.partial_cmp(&y) { r = Err("float vs Number ordering differs"); }
    std::mem::forget(a);
    std::mem::forget(b);
    r
}
