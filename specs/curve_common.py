"""Curves for C11 / C12: CurveDF<Interpolator, Cal> built through try_new from nodes with SYMBOLIC distinct timestamps
(day numbers, so the sort explores every supply order) and symbolic positive values; symbolic query date.
The oracle is declarative: 'the adjacent pair of nodes (in date order) whose right end is the first node >= x'."""
import z3, json, itertools
from fractions import Fraction
from vlib import common as C
from specs.dual_common import *
from specs.fx_common import str_coef1, str_coef2, var_names
from mirsym.machine import RustPanic, Budget
from mirsym.models import fpow

INTERPS = {"linear": "LinearInterpolator", "log_linear": "LogLinearInterpolator", "linear_zero_rate": "LinearZeroRateInterpolator",
           "flat_forward": "FlatForwardInterpolator", "flat_backward": "FlatBackwardInterpolator"}
SEC = 86400


def mk_enum(S, en, variant):
    disc = {vn: d for vn, d, _ in S.enums[en]}[variant]
    return Enum(en, variant, disc, [])


def mk_curve(m, S, interp, ts, vals, kind="F64", index_base=None, cid="crv"):
    """ts: day numbers (z3 Int), vals: F | Dual | Dual2 values in SUPPLY order"""
    keys = [NDT(t, 0) for t in ts]
    disc = {vn: d for vn, d, _ in S.enums["Nodes"]}[kind]
    nodes = Enum("Nodes", kind, disc, [MapV(keys, vals)])
    it = Struct(INTERPS[interp], [])
    cal = Struct("Cal", [SetV(()), SetV(())])
    T_ = INTERPS[interp]
    ib = NONE if index_base is None else some(F(index_base))
    r = m.call_text(f"CurveDF::<{T_}, Cal>::try_new", [nodes, it, Str(cid), mk_enum(S, "Convention", "Act360"), mk_enum(S, "Modifier", "ModF"), ib, cal],
                    [parse_type("Nodes"), parse_type(T_), parse_type("&str"), parse_type("Convention"), parse_type("Modifier"), parse_type("Option<f64>"), parse_type("Cal")],
                    parse_type(f"Result<CurveDF<{T_}, Cal>, PyErr>"), env={"T": parse_type(T_), "U": parse_type("Cal")})
    return r


def lookup(m, S, curve, interp, xday):
    T_ = INTERPS[interp]
    CT = parse_type(f"&CurveDF<{T_}, Cal>")
    return m.call_text(f"CurveDF::<{T_}, Cal>::interpolated_value", [m.temp_ref(curve), m.temp_ref(NDT(xday, 0))], [CT, parse_type("&NaiveDateTime")], parse_type("Number"),
                       env={"T": parse_type(T_), "U": parse_type("Cal")})


def real_of(S, v):
    v = v.fields[0] if isinstance(v, Enum) and v.name == "Number" else v
    return v if isinstance(v, F) else parts(S, v)["real"]


def selects(ts, i, j, x):
    """node i and node j are adjacent in date order and [t_i, t_j] is the interval used for x"""
    n = len(ts)
    adj = z3.And(ts[i] < ts[j], *[z3.Or(ts[k] <= ts[i], ts[k] >= ts[j]) for k in range(n) if k not in (i, j)])
    is_first = z3.And(*[ts[i] <= ts[k] for k in range(n)])
    is_last = z3.And(*[ts[j] >= ts[k] for k in range(n)])
    inside = z3.And(ts[i] < x, x <= ts[j])
    return z3.And(adj, z3.Or(inside, z3.And(is_first, x <= ts[i]), z3.And(is_last, x > ts[j])))


def tF(t):
    return F(z3.ToReal(t) * SEC)


def weights(interp, ts, i, j, x):
    """exponents (c_i, c_j) with value = y_i^c_i * y_j^c_j for the log-type rules; w for linear"""
    ti, tj, tx = tF(ts[i]), tF(ts[j]), tF(x)
    w = fr_bin("div", fr_bin("sub", tx, ti), fr_bin("sub", tj, ti))
    return w


def expected_value(m, interp, ts, ys, i, j, x):
    """closed form on the two nodes (ys are F values)"""
    w = weights(interp, ts, i, j, x)
    one = F(1)
    if interp == "linear":
        return fr_bin("add", ys[i], fr_bin("mul", fr_bin("sub", ys[j], ys[i]), w)), None
    if interp == "flat_forward":
        return None, ("ite", x >= ts[j], ys[j], ys[i])
    if interp == "flat_backward":
        return None, ("ite", x <= ts[i], ys[i], ys[j])
    ln = lambda y: F(m.ufun("ln", y.z()))
    if interp == "log_linear":
        arg = fr_bin("add", ln(ys[i]), fr_bin("mul", fr_bin("sub", ln(ys[j]), ln(ys[i])), w))
        return F(m.ufun("exp", arg.z())), None
    # linear zero rate measured from the first node t0
    return None, ("zero", w)


def exponents(interp, ts, i, j, x, t0):
    """(c_i, c_j) such that ln value = c_i ln y_i + c_j ln y_j (log-type rules), as F fractions of timestamps"""
    ti, tj, tx = tF(ts[i]), tF(ts[j]), tF(x)
    if interp == "log_linear":
        w = fr_bin("div", fr_bin("sub", tx, ti), fr_bin("sub", tj, ti))
        return fr_bin("sub", F(1), w), w, None
    # zero rate from t0:  r_k = -ln y_k / tau_k,  r = r_i + (r_j - r_i) u,  u = (tau - tau_i)/(tau_j - tau_i),  ln v = -r tau
    T0 = tF(t0)
    tau, taui, tauj = fr_bin("sub", tx, T0), fr_bin("sub", ti, T0), fr_bin("sub", tj, T0)
    first = ts[i] == t0
    u = fr_bin("div", fr_bin("sub", tau, taui), fr_bin("sub", tauj, taui))
    ci = fr_bin("div", fr_bin("mul", tau, fr_bin("sub", F(1), u)), taui)
    cj = fr_bin("div", fr_bin("mul", tau, u), tauj)
    cj_first = fr_bin("div", tau, tauj)
    return ci, cj, (first, cj_first)


def as_frac(term):
    """a z3 real term n/d as the fraction F(n, d) (so that identities about it stay division-free)"""
    if z3.is_app(term) and term.decl().kind() == z3.Z3_OP_DIV:
        return F(term.arg(0), term.arg(1))
    return F(term)


def subst_F(f, x, v):
    n, d = f.pair()
    return F(z3.substitute(n, (x, v)), z3.substitute(d, (x, v)))


def _int_only(e, cache):
    k = e.get_id()
    if k in cache:
        return cache[k]
    r = not z3.is_real(e) and all(_int_only(c, cache) for c in e.children())
    cache[k] = r
    return r


def settled(m, cond, timeout_ms=3000):
    """is the (linear, integer) condition already decided by the path condition?  True / False / None.
    Asked of a side solver holding only the integer-sorted part of the path condition (dates and orderings): fewer
    facts can only make it answer None more often, never a wrong True/False."""
    st = getattr(m, "_int_solver", None)
    if st is None or st[1] > len(m.pc):
        st = [z3.Solver(), 0, {}]
        st[0].set("timeout", timeout_ms)
        m._int_solver = st
    sv, done, cache = st
    for c in m.pc[done:]:
        c = bz(c)
        if _int_only(c, cache):
            sv.add(c)
    st[1] = len(m.pc)
    cond = bz(cond)
    if not _int_only(cond, cache):
        return None
    sv.push(); sv.add(z3.Not(cond)); r1 = sv.check(); sv.pop()
    if r1 == z3.unsat:
        return True
    sv.push(); sv.add(cond); r2 = sv.check(); sv.pop()
    if r2 == z3.unsat:
        return False
    return None


def value_props(m, S, interp, ts, ys, x, res, tag=""):
    """list of (desc, prop): the looked-up value equals the rule's closed form on the selected adjacent pair.
    The path through the sort and the bisection normally fixes the date order and the interval, so each
    'this pair is the selected one' guard is first settled against the path condition (linear integer query);
    only an undetermined guard stays as an implication."""
    n = len(ts)
    props = []
    rr = real_of(S, res)
    t0 = None
    if interp == "linear_zero_rate":
        for k in range(n):
            if settled(m, z3.And(*[ts[k] <= t for t in ts])) is True:
                t0 = ts[k]
                break
        if t0 is None:
            t0 = z3.Int("t0min")
            m.assume(z3.Or(*[t0 == t for t in ts]))
            for t in ts:
                m.assume(t0 <= t)
    for i in range(n):
        for j in range(n):
            if i == j:
                continue
            sel = selects(ts, i, j, x)
            g = settled(m, sel)
            if g is False:
                continue
            if g is True:
                sel = z3.BoolVal(True)
            if interp == "linear":
                w = fr_bin("div", fr_bin("sub", tF(x), tF(ts[i])), fr_bin("sub", tF(ts[j]), tF(ts[i])))
                want = fr_bin("add", ys[i], fr_bin("mul", fr_bin("sub", ys[j], ys[i]), w))
                props.append((f"{tag}linear on nodes {i},{j}", z3.Implies(sel, fr_eq(rr, want))))
                props.append((f"{tag}between the node values inside the interval", z3.Implies(z3.And(sel, ts[i] <= x, x <= ts[j]),
                              z3.And(f_cmp("ge", rr, fr_ite(bz(f_cmp("le", ys[i], ys[j])), ys[i], ys[j])), f_cmp("le", rr, fr_ite(bz(f_cmp("le", ys[i], ys[j])), ys[j], ys[i]))))))
            elif interp == "flat_forward":
                props.append((f"{tag}flat forward on nodes {i},{j}", z3.Implies(sel, fr_eq(rr, fr_ite(x >= ts[j], ys[j], ys[i])))))
            elif interp == "flat_backward":
                props.append((f"{tag}flat backward on nodes {i},{j}", z3.Implies(sel, fr_eq(rr, fr_ite(x <= ts[i], ys[i], ys[j])))))
            else:
                ci, cj, first = exponents(interp, ts, i, j, x, t0)
                lni, lnj = F(m.ufun("ln", ys[i].z())), F(m.ufun("ln", ys[j].z()))
                rz = rr.z()
                if z3.is_app(rz) and rz.decl().name() == "exp":
                    arg = as_frac(rz.arg(0))
                    want = fr_bin("add", fr_bin("mul", ci, lni), fr_bin("mul", cj, lnj))
                    if first is not None:
                        c, cjf = first
                        want_first = fr_bin("mul", cjf, lnj)
                        gc = settled(m, c) if not isinstance(c, bool) else c
                        if gc is True:
                            props.append((f"{tag}{interp} exponent on nodes {i},{j} (first interval)", z3.Implies(sel, fr_eq(arg, want_first))))
                        elif gc is False:
                            props.append((f"{tag}{interp} exponent on nodes {i},{j}", z3.Implies(sel, fr_eq(arg, want))))
                        else:
                            props.append((f"{tag}{interp} exponent on nodes {i},{j}", z3.Implies(sel, z3.If(c, fr_eq(arg, want_first), fr_eq(arg, want)))))
                    else:
                        props.append((f"{tag}{interp} exponent on nodes {i},{j}", z3.Implies(sel, fr_eq(arg, want))))
                else:
                    props.append((f"{tag}{interp}: value is exp(...) of a log-space combination", False))
    return props


def symbolic_nodes(m, n, positive=True):
    ts = [z3.Int(f"t{i}") for i in range(n)]
    for i in range(n):
        m.assume(ts[i] >= 10000); m.assume(ts[i] <= 80000)
        for j in range(i):
            m.assume(ts[i] != ts[j])
    ys = [z3.Real(f"y{i}") for i in range(n)]
    for y in ys:
        m.assume(y > 0)
    return ts, ys


def py_curve_value(interp, tv, yv, xv):
    """the rule's closed form in Python floats (independent oracle for native replays): nodes (tv[k], yv[k]) in any order"""
    import math
    n = len(tv)
    order = sorted(range(n), key=lambda k: tv[k])
    T = [tv[k] for k in order]; Y = [yv[k] for k in order]
    jx = 1
    while jx < n - 1 and T[jx] < xv:
        jx += 1
    i0, j0 = jx - 1, jx
    w = (xv - T[i0]) / (T[j0] - T[i0])
    if interp == "linear":
        return Y[i0] + (Y[j0] - Y[i0]) * w
    if interp == "log_linear":
        return math.exp(math.log(Y[i0]) + (math.log(Y[j0]) - math.log(Y[i0])) * w)
    if interp == "flat_forward":
        return Y[j0] if xv >= T[j0] else Y[i0]
    if interp == "flat_backward":
        return Y[i0] if xv <= T[i0] else Y[j0]
    tau, ti_, tj_ = (xv - T[0]), (T[i0] - T[0]), (T[j0] - T[0])
    r2 = -math.log(Y[j0]) / tj_
    rr_ = r2 if ti_ == 0 else (-math.log(Y[i0]) / ti_) + (r2 - (-math.log(Y[i0]) / ti_)) * ((tau - ti_) / (tj_ - ti_))
    return math.exp(-rr_ * tau)
