"""C11 — curve look-ups follow each interpolation rule at, between and beyond nodes (engines K + M)."""
import z3, json
from vlib import common as C, kspec
from specs.dual_common import *
from specs.curve_common import *

PID = "C11"


def obligations(tier):
    obs = []
    ns = (2, 3, 4) if tier == "quick" else (2, 3, 4, 5, 6)
    for interp in INTERPS:
        for n in ns:
            obs.append(dict(id=f"{interp} {n} nodes", interp=interp, n=n))
    return obs


def worker(ob):
    P, S = get_world()
    interp, n = ob["interp"], ob["n"]

    def harness(m):
        m.div_mode = "frac"
        ts, ys = symbolic_nodes(m, n)
        x = z3.Int("x")
        m.assume(x >= 9000); m.assume(x <= 81000)
        Y = [F(y) for y in ys]
        chk = Check(m)
        r = mk_curve(m, S, interp, ts, Y)
        props = [("curve accepted", r.variant == "Ok")]
        replay = None
        if r.variant == "Ok":
            curve = r.fields[0]
            res = lookup(m, S, curve, interp, x)
            props += value_props(m, S, interp, ts, Y, x, res)
            rr = real_of(S, res)
            if interp in ("log_linear", "linear_zero_rate"):
                # ground instances of exp(ln y) = y (y > 0) and exp(0) = 1 for the node values
                for y in ys:
                    m.define(m.ufun("exp", m.ufun("ln", y)) == y)
                m.define(m.ufun("exp", z3.RealVal(0)) == 1)
                m.axioms.append("exp(ln y)=y for node values; exp(0)=1")
            rz = rr.z()
            logtype = interp in ("log_linear", "linear_zero_rate") and z3.is_app(rz) and rz.decl().name() == "exp"
            for k in range(n):
                gx = settled(m, x == ts[k])
                if gx is False:
                    continue
                hyp = z3.BoolVal(True) if gx is True else (x == ts[k])
                if logtype:
                    # exp is injective: 'value = y_k' <=> 'exponent = ln y_k' (and 'value = 1' <=> 'exponent = 0'); the exponent is
                    # compared after substituting the node date, which leaves a division-free polynomial identity
                    argk = subst_F(as_frac(rz.arg(0)), x, ts[k])
                    lnk = F(m.ufun("ln", ys[k]))
                    if interp == "linear_zero_rate":
                        first = z3.And(*[ts[k] <= t for t in ts])
                        gf = settled(m, first)
                        body = fr_eq(argk, F(0)) if gf is True else fr_eq(argk, lnk) if gf is False else z3.If(first, fr_eq(argk, F(0)), fr_eq(argk, lnk))
                        props.append((f"at node {k} the value is that node's value (1 at the first node, whose value is presumed 1)", z3.Implies(hyp, body)))
                    else:
                        props.append((f"at node {k} the value is that node's value", z3.Implies(hyp, fr_eq(argk, lnk))))
                elif interp == "linear_zero_rate":
                    first = z3.And(*[ts[k] <= t for t in ts])
                    props.append((f"at node {k} the value is that node's value (1 at the first node, whose value is presumed 1)",
                                  z3.Implies(hyp, z3.If(first, fr_eq(rr, F(1)), fr_eq(rr, Y[k])))))
                else:
                    props.append((f"at node {k} the value is that node's value", z3.Implies(hyp, fr_eq(rr, Y[k]))))
            props.append(("no division by zero", z3.And(*m.div_guards) if m.div_guards else True))

            def replay(model):
                tv = [mval(model, t) for t in ts]; yv = [float(mval(model, y)) for y in ys]; xv = mval(model, x)
                sc = {"kind": "curve", "interp": interp, "nodes": [[tv[i], {"kind": "F64", "f64": yv[i]}] for i in range(n)], "id": "crv", "index_base": None, "ops": [], "queries": [xv]}
                out = {"scenario": sc, "mismatch": [], "native": {}, "reproduced": False}
                import math
                order = sorted(range(n), key=lambda k: tv[k])
                T = [tv[k] for k in order]; Yv = [yv[k] for k in order]
                # interval: right end = first node >= x, clamped
                jx = 1
                while jx < n - 1 and T[jx] < xv:
                    jx += 1
                i0, j0 = jx - 1, jx
                w = (xv - T[i0]) / (T[j0] - T[i0])
                if interp == "linear": want = Yv[i0] + (Yv[j0] - Yv[i0]) * w
                elif interp == "log_linear": want = math.exp(math.log(Yv[i0]) + (math.log(Yv[j0]) - math.log(Yv[i0])) * w)
                elif interp == "flat_forward": want = Yv[j0] if xv >= T[j0] else Yv[i0]
                elif interp == "flat_backward": want = Yv[i0] if xv <= T[i0] else Yv[j0]
                else:
                    tau, ti_, tj_ = (xv - T[0]), (T[i0] - T[0]), (T[j0] - T[0])
                    r2 = -math.log(Yv[j0]) / tj_
                    rr_ = r2 if ti_ == 0 else (-math.log(Yv[i0]) / ti_) + (r2 - (-math.log(Yv[i0]) / ti_)) * ((tau - ti_) / (tj_ - ti_))
                    want = math.exp(-rr_ * tau)
                for prof in ("dev", "release"):
                    o = native_run([sc], prof)[0]
                    out["native"][prof] = o
                    if "steps" not in o:
                        out["mismatch"].append(f"{prof}: {o}"); continue
                    got = o["steps"][0]["values"][0]["real"]
                    if not close(got, want, 1e-9):
                        out["mismatch"].append(f"{prof}: value at day {xv} native={got} expected={want} (nodes {list(zip(tv, yv))})")
                    if o["steps"][0]["node_index"][0] != i0:
                        out["mismatch"].append(f"{prof}: node_index native={o['steps'][0]['node_index'][0]} expected={i0}")
                out["reproduced"] = bool(out["mismatch"])
                return out
        add_props(chk, props, replay)
        return chk
    return explore_ob(harness, max_paths=20000, max_seconds=1400 if C.tier_seed()[0] == "quick" else 9000)


K_Q = [f"c11_index_left_{n}" for n in (2, 3, 4, 5, 6)]
K_T = [f"c11_index_left_{n}" for n in range(2, 10)]


def run(tier, seed):
    ev = C.Evidence(PID, tier, seed, "model_checking")
    harnesses = K_Q if tier == "quick" else K_T
    kout = kspec.run_kani_part(PID, harnesses, 900 if tier == "quick" else 3000, jobs=6, seed=seed)
    obs = obligations(tier)
    results = run_pool(obs, worker, seed=seed)
    tot = summarize(results)
    if tot["panics"]:
        tot["undecided"].append(f"panic leaves: {tot['panics'][:3]}")
    tot["undecided"] += kout["undecided"]
    for role, path, text in kout["violations"]:
        tot["fails"].append({"ob": role["harness"], "reproduced": True, "mismatch": [text], "scenario": role})
    res = kout["results"]
    ev.cov(kani_harnesses=[{"harness": h, "status": res[h]["status"], "checks": res[h].get("checks"), "solver_s": res[h].get("solver_s")} for h in harnesses])
    standard_finish(PID, ev, obs + [dict(id=h) for h in harnesses], results + [{"ob": h, "paths": 1, "checks": res[h].get("checks", 0), "holds": res[h].get("checks", 0) if res[h]["status"] == "success" else 0} for h in harnesses], tot,
                    lambda f: {"site": f.get("ob", "").split(" ")[0]},
                    bounds={"interval_selection": f"index_left::<i64> on EVERY strictly increasing list of {harnesses[0][-1]}..{harnesses[-1][-1]} keys and every query (Kani, bit-precise, exact)",
                            "formulas": "2..4 (quick) / 2..6 (thorough) nodes with symbolic distinct dates (every supply order via the real sort), symbolic positive values, symbolic query date before/at/between/after the nodes, all 5 rules",
                            "outside": "more than 6 nodes for the formulas (index logic covered to 9); intra-day timestamps; log-linear 'between' clause (needs monotonic exp/ln) is proved for the linear rule only"},
                    rule="K: one obligation per list length; M: obligation = (rule, node count), paths = sort orders x index_left branches; one validity query per path with a declarative oracle (adjacent pair whose right end is the first node >= x)",
                    assumptions=["reals; ln/exp uninterpreted: the log-type rules are compared in log space (the exponent passed to exp is checked as an exact rational identity)", "dates at midnight"])


def replay(path):
    obj = json.load(open(path))
    if obj.get("engine") == "kani":
        return kspec.replay_file(path)
    print(json.dumps(obj.get("native"), indent=1)[:3000])
    return 1 if obj.get("reproduced") else 0
