"""FX markets for C09 / C10: canonical enumeration of quote-list STRUCTURES (who is quoted against whom, in which
orientation and order, which base) with symbolic positive rates; tree oracle (path products, sensitivities)."""
import z3, json, itertools
from fractions import Fraction
from vlib import common as C
from specs.dual_common import *
from mirsym.machine import RustPanic

NAMES = ["aaa", "bbb", "ccc", "ddd", "eee", "fff", "ggg", "hhh", "iii", "jjj", "kkk", "lll", "mmm", "nnn"]


def structures(q, with_base=True):
    """canonical quote structures: list of (pairs, base) where currencies are labelled by first appearance
    (the base, when given, is label 0 and is inserted first, exactly as try_new does)"""
    out = []

    def rec(k, pairs, nq):
        if nq == 0:
            yield list(pairs), k
            return
        cands = [(a, b) for a in range(k) for b in range(k) if a != b]
        cands += [(k, b) for b in range(k)] + [(a, k) for a in range(k)] + [(k, k + 1)]
        for (a, b) in cands:
            nk = max(k, a + 1, b + 1)
            pairs.append((a, b))
            yield from rec(nk, pairs, nq - 1)
            pairs.pop()
    for pairs, k in rec(0, [], q):
        out.append((pairs, None, k))
    if with_base:
        for pairs, k in rec(1, [], q):
            out.append((pairs, 0, k))
    return out


def big_structures(sizes, variants):
    """representative spanning trees over many currencies (chains, stars, caterpillars, pseudo-random trees), with mixed quote
    orientations and shuffled quote order; labels are canonical (base first, then by first appearance), as try_new inserts them"""
    import random
    out = []
    for n in sizes:
        shapes = {"chain": [(i, i + 1) for i in range(n - 1)], "star": [(0, i) for i in range(1, n)],
                  "star_last": [(n - 1, i) for i in range(n - 1)], "caterpillar": [(i, i + 1) for i in range(n // 2)] + [(i % (n // 2 + 1), n // 2 + 1 + i) for i in range(n - 1 - n // 2)]}
        rnd = random.Random(1000 + n)
        shapes["random"] = [(rnd.randrange(i), i) for i in range(1, n)]
        for name in variants:
            edges = shapes[name]
            rs = random.Random(sum(map(ord, name)) * 100 + n)
            edges = [(a, b) if rs.random() < 0.5 else (b, a) for a, b in edges]
            rs.shuffle(edges)
            for base in (None, edges[len(edges) // 2][0]):
                # canonical relabelling
                lab = {}
                if base is not None:
                    lab[base] = 0
                for a, b in edges:
                    for x in (a, b):
                        if x not in lab:
                            lab[x] = len(lab)
                pairs = [(lab[a], lab[b]) for a, b in edges]
                out.append((f"{name}{n}", pairs, None if base is None else 0, n))
    return out


def is_tree(pairs, ncur):
    if len(pairs) != ncur - 1:
        return False
    parent = list(range(ncur))

    def find(x):
        while parent[x] != x:
            parent[x] = parent[parent[x]]
            x = parent[x]
        return x
    for a, b in pairs:
        ra, rb = find(a), find(b)
        if ra == rb:
            return False
        parent[ra] = rb
    return len({find(x) for x in range(ncur)}) == 1


def tree_paths(pairs, ncur):
    """for every (i, j): list of (quote index, sign) along the unique path; sign +1 = travelled lhs->rhs"""
    adj = {i: [] for i in range(ncur)}
    for k, (a, b) in enumerate(pairs):
        adj[a].append((b, k, +1))
        adj[b].append((a, k, -1))
    paths = {}
    for i in range(ncur):
        seen = {i: []}
        stack = [i]
        while stack:
            u = stack.pop()
            for v, k, s in adj[u]:
                if v not in seen:
                    seen[v] = seen[u] + [(k, s)]
                    stack.append(v)
        for j in range(ncur):
            paths[(i, j)] = seen.get(j)
    return paths


def ccy_order(pairs, base, ncur):
    order = []
    if base is not None:
        order.append(base)
    for a, b in pairs:
        for x in (a, b):
            if x not in order:
                order.append(x)
    return order


def mk_quote(m, S, a, b, rate_number, settlement):
    r = m.call_text("FXRate::try_new", [Str(NAMES[a]), Str(NAMES[b]), rate_number, settlement],
                    [parse_type("&str"), parse_type("&str"), parse_type("Number"), parse_type("Option<NaiveDateTime>")], parse_type("Result<FXRate, PyErr>"))
    assert r.variant == "Ok", r
    return r.fields[0]


def number_f64(S, x):
    disc = {vn: d for vn, d, _ in S.enums["Number"]}["F64"]
    return Enum("Number", "F64", disc, [F(x)])


def mk_ccy(m, name):
    return m.call_text("Ccy::try_new", [Str(name)], [parse_type("&str")], parse_type("Result<Ccy, PyErr>")).fields[0]


def str_coef1(S, d, name):
    """derivative of a dual number w.r.t. the variable named by the concrete string `name`"""
    p = parts(S, d)
    e = F(0)
    for n_, x in zip(p["vars"].v.items, p["dual"].data):
        if isinstance(n_, Str) and n_.s == name:
            e = fr_bin("add", e, x)
    return e


def str_coef2(S, d, n1, n2):
    p = parts(S, d)
    items = p["vars"].v.items
    n = len(items)
    e = F(0)
    for i in range(n):
        for j in range(n):
            if isinstance(items[i], Str) and isinstance(items[j], Str) and items[i].s == n1 and items[j].s == n2:
                e = fr_bin("add", e, fr_bin("mul", F(2), p["dual2"].data[i * n + j]))
    return e


def var_names(S, d):
    return [x.s for x in parts(S, d)["vars"].v.items]


def array_of(S, fx):
    """(kind, Nd) of the market matrix"""
    f = dict(zip(S.structs["FXRates"], fx.fields))
    arr = f["fx_array"]
    return arr.variant, arr.fields[0], f


def cross_expr(path, rates):
    e = F(1)
    for k, s in path:
        e = fr_bin("mul", e, rates[k]) if s > 0 else fr_bin("div", e, rates[k])
    return e


def quote_json(a, b, rate, settlement=None, dual=None):
    if dual is None:
        rj = {"kind": "F64", "f64": rate}
    else:
        rj = {"kind": "Dual", "real": rate, "vars": dual[0], "dual": dual[1]}
    return {"lhs": NAMES[a], "rhs": NAMES[b], "rate": rj, "settlement": settlement}
