"""C18 — changing derivative order or mixing number kinds never alters values (engine M).
(a) set_order / set_order_clone: full 3x3 table; (b) every From impl of from.rs; (c) every operator of the generic
Number container: each of the nine kind pairings equals the operator on the contained values, and the two mixed
first/second-order pairings are refused (panic) rather than computed."""
import z3, json
from fractions import Fraction
from vlib import common as C
from specs.dual_common import *
from specs import dual_ad
from mirsym.machine import RustPanic

PID = "C18"
KINDS = ("F64", "Dual", "Dual2")
KORD = {"F64": 0, "Dual": 1, "Dual2": 2}
TYN = {"F64": "f64", "Dual": "Dual", "Dual2": "Dual2"}


def number_variants(S):
    return {vn: (disc, vn) for vn, disc, _ in S.enums["Number"]}


def mk_num(m, S, tag, kind, ln, inputs, wrap=True):
    """contained value + (optionally) the Number wrapping it"""
    if kind == "F64":
        x = z3.Real(tag + "_r")
        inputs.append({"tag": tag, "order": 0, "real": x, "names": [], "dual": []})
        v = F(x)
        names = []
    else:
        names = mk_names(m, tag, ln)
        v = mk_dual(m, S, tag, names, KORD[kind], inputs=inputs)
    inputs[-1]["kind"] = kind
    if not wrap:
        return v, v, names
    disc = number_variants(S)[kind][0]
    return Enum("Number", kind, disc, [v]), v, names


def sem(S, m, x):
    """(kind, real F, names, c1(v)->F, c2(v,w)->F) of any number value"""
    x = m.strip(x)
    if isinstance(x, Enum) and x.name == "Number":
        x = x.fields[0]
    if isinstance(x, F):
        return "F64", x, [], (lambda v: F(0)), (lambda v, w: F(0))
    if isinstance(x, Struct) and x.name == "Dual":
        return "Dual", parts(S, x)["real"], names_of(S, x), (lambda v: coef1(S, x, v)), (lambda v, w: F(0))
    if isinstance(x, Struct) and x.name == "Dual2":
        return "Dual2", parts(S, x)["real"], names_of(S, x), (lambda v: coef1(S, x, v)), (lambda v, w: coef2(S, x, v, w))
    raise Unsupported(f"not a number: {x!r}")


def kind_of(m, x):
    x = m.strip(x)
    if isinstance(x, Enum) and x.name == "Number":
        return x.variant
    return {"F": "F64"}.get(type(x).__name__, getattr(x, "name", "?"))


def sem_equal(S, m, got, want, names):
    kg, rg, ng, c1g, c2g = sem(S, m, got)
    kw, rw, nw, c1w, c2w = sem(S, m, want)
    props = [("same kind", kg == kw), ("value", fr_eq(rg, rw))]
    wf = m.strip(got)
    if isinstance(wf, Enum):
        wf = wf.fields[0]
    if isinstance(wf, Struct):
        props.append(("well-formed", shape_ok(S, wf)))
        props.append(("names distinct", distinct_names(S, wf)))
    allv = list(names) + list(ng) + list(nw)
    for v in allv:
        props.append((f"d/d[{v}]", fr_eq(c1g(v), c1w(v))))
    if kg == "Dual2" or kw == "Dual2":
        for v in allv:
            for w in allv:
                props.append((f"d2/d[{v}]d[{w}]", fr_eq(c2g(v, w), c2w(v, w))))
    return props


def enum_number_ops(P):
    out = []
    for name in ("add", "sub", "mul", "div", "rem"):
        for f in P.by_name.get(name, []):
            if f.kind != "fn" or f.is_closure or len(f.params) != 2:
                continue
            b = [deref_ty(t).name for _, t in f.params]
            if "Number" in b and set(b) <= {"Number", "f64"}:
                out.append(("bin", name, f))
    for name in ("neg", "exp", "log", "norm_cdf", "inv_norm_cdf", "abs"):
        for f in P.by_name.get(name, []):
            if f.kind == "fn" and not f.is_closure and len(f.params) == 1 and deref_ty(f.params[0][1]).name == "Number" and f.ret.name == "Number":
                out.append(("un", name, f))
    for f in P.by_name.get("pow", []):
        if f.kind == "fn" and not f.is_closure and len(f.params) == 2 and deref_ty(f.params[0][1]).name == "Number":
            out.append(("un", "pow", f))
    for name in ("eq", "partial_cmp"):
        for f in P.by_name.get(name, []):
            if f.kind != "fn" or f.is_closure or len(f.params) != 2:
                continue
            b = [deref_ty(t).name for _, t in f.params]
            if "Number" in b and set(b) <= {"Number", "f64"}:
                out.append(("cmp", name, f))
    return out


def enum_from(P):
    out = []
    for f in P.by_name.get("from", []):
        if f.kind != "fn" or f.is_closure or len(f.params) != 1:
            continue
        s, t = deref_ty(f.params[0][1]).name, f.ret.name
        if {s, t} <= {"f64", "Dual", "Dual2", "Number"} and s != t and "dual_ops" in f.path or (f.impl_span and "dual_ops/from.rs" in f.impl_span and {s, t} <= {"f64", "Dual", "Dual2", "Number"}):
            out.append(f)
    return out


def obligations(L, tier):
    P, S = get_world()
    obs = []
    sizes = (0, 1, 2) if tier == "quick" else (0, 1, 2, 3)
    for fname in ("set_order", "set_order_clone"):
        fs = [f for f in P.by_name.get(fname, []) if f.kind == "fn" and not f.is_closure]
        if len(fs) != 1:
            obs.append(dict(id=f"{fname}: expected exactly one body, found {len(fs)}", bad=True)); continue
        for k in KINDS:
            for o in ("Zero", "One", "Two"):
                for ln in ((0,) if k == "F64" else sizes):
                    for lv in (0, 1, 2):
                        obs.append(dict(id=f"{fname}({k}|{ln}| -> {o}, {lv} names)", kind="set_order", fn=fs[0].index, k=k, o=o, ln=ln, lv=lv))
    for f in enum_from(P):
        s = deref_ty(f.params[0][1]).name
        for k in (KINDS if s == "Number" else ({"f64": "F64"}.get(s, s),)):
            for ln in ((0,) if k == "F64" else sizes):
                obs.append(dict(id=f"{dual_ad.sig(f)} source {k}|{ln}|", kind="from", fn=f.index, k=k, ln=ln))
    for kd, op, f in enum_number_ops(P):
        b = [deref_ty(t).name for _, t in f.params]
        if kd in ("bin", "cmp"):
            ka = KINDS if b[0] == "Number" else ("bare",)
            kb = KINDS if b[1] == "Number" else ("bare",)
            for x in ka:
                for y in kb:
                    for la in ((0,) if x in ("F64", "bare") else sizes):
                        for lb in ((0,) if y in ("F64", "bare") else sizes):
                            obs.append(dict(id=f"Number {dual_ad.sig(f)} [{x}|{la}| , {y}|{lb}|]", kind="numop", sub=kd, op=op, fn=f.index, ka=x, kb=y, la=la, lb=lb))
        else:
            for x in KINDS:
                for la in ((0,) if x == "F64" else sizes):
                    obs.append(dict(id=f"Number {dual_ad.sig(f)} [{x}|{la}|]", kind="numop", sub="un", op=op, fn=f.index, ka=x, la=la))
    for k in KINDS:
        obs.append(dict(id=f"Number sum / zero / one with {k}", kind="numsum", k=k))
    return obs


TRAIT = {"add": "Add", "sub": "Sub", "mul": "Mul", "div": "Div", "rem": "Rem"}


def worker(ob):
    if ob.get("bad"):
        return {"undecided": [ob["id"]]}
    P, S = get_world()

    def harness(m):
        m.div_mode = "frac"
        inputs = []
        chk = Check(m)
        props = []
        sc = None
        kind = ob["kind"]
        if kind == "set_order":
            fn = P.functions[ob["fn"]]
            num, val, names = mk_num(m, S, "a", ob["k"], ob["ln"], inputs)
            req = [Atom(z3.Int(f"r_n{i}"), f"r_n{i}") for i in range(ob["lv"])]   # duplicates allowed
            for r in req:
                m.assume(r.id >= 0); m.assume(r.id <= 9)
            disc = {vn: d for vn, d, _ in S.enums["ADOrder"]}[ob["o"]]
            order = Enum("ADOrder", ob["o"], disc, [])
            arg0 = m.temp_ref(num) if fn.params[0][1].k == "ref" else num
            res = m.run_function(fn, [arg0, order, Seq(req)], {})
            kg, rg, ng, c1g, c2g = sem(S, m, res)
            _, rv_, nv, c1v, c2v = sem(S, m, val)
            want_kind = {"Zero": "F64", "One": "Dual", "Two": "Dual2"}[ob["o"]]
            props.append(("result kind", kg == want_kind))
            props.append(("value unchanged", fr_eq(rg, rv_)))
            conv_soft = ("the value is moved, not recomputed (bit-exact)", not rg.ar)
            inner = m.strip(res).fields[0]
            if isinstance(inner, Struct):
                props.append(("well-formed", shape_ok(S, inner)))
                props.append(("names distinct", distinct_names(S, inner)))
            allv = [x.id for x in names] + [r.id for r in req]
            if ob["k"] == "F64" and want_kind != "F64":
                props.append(("exactly the requested names", union_exact(S, inner, [[r.id for r in req]])))
                for r in req:
                    props.append((f"unit sensitivity to requested [{r.id}]", fr_eq(c1g(r.id), F(1))))
                if want_kind == "Dual2":
                    for v in allv:
                        for w in allv:
                            props.append(("zero Hessian", fr_eq(c2g(v, w), F(0))))
            elif want_kind != "F64":
                props.append(("keeps exactly its own names", union_exact(S, inner, [[x.id for x in names]])))
                for v in allv:
                    props.append((f"d/d[{v}] kept", fr_eq(c1g(v), c1v(v))))
                if want_kind == "Dual2":
                    for v in allv:
                        for w in allv:
                            props.append(("Hessian kept (zero when raised from first order)", fr_eq(c2g(v, w), c2v(v, w))))
            extra = [r.id for r in req]

            def mk_sc(env):
                return {"kind": "set_order", "a": num_json(inputs[0], env), "order": ob["o"], "vars": [env[str(r.id)] for r in req], "clone": fn.params[0][1].k == "ref"}

            def compare(o, env, sc_):
                mm = []
                a = sc_["a"]
                if o["kind"] != want_kind:
                    mm.append(f"kind {o['kind']} expected {want_kind}")
                if not close(o["real"], a.get("f64", a.get("real"))):
                    mm.append(f"value {o['real']}")
                if len(o["dual"]) != len(o["vars"]) or (o["kind"] == "Dual2" and len(o["dual2"]) != len(o["vars"]) ** 2) or len(set(o["vars"])) != len(o["vars"]):
                    mm.append(f"malformed: vars={o['vars']} |dual|={len(o['dual'])} |dual2|={len(o.get('dual2', []))}")
                    return mm
                if a["kind"] == "F64" and want_kind != "F64":
                    if sorted(o["vars"]) != sorted({f"v{v}" for v in sc_["vars"]}):
                        mm.append(f"names {o['vars']} requested {sc_['vars']}")
                    if any(not close(x, 1.0) for x in o["dual"]):
                        mm.append(f"sensitivities {o['dual']}")
                    if any(not close(x, 0.0) for x in o.get("dual2", [])):
                        mm.append("non-zero Hessian")
                elif want_kind != "F64":
                    a2 = dict(a); a2.setdefault("dual2", [0.0] * (len(a["vars"]) ** 2))
                    mm += json_same_by_name(o, a2, 2 if want_kind == "Dual2" else 1)
                    if sorted(o["vars"]) != sorted(f"v{v}" for v in a["vars"]):
                        mm.append(f"names {o['vars']} vs {a['vars']}")
                return mm
        elif kind == "from":
            fn = P.functions[ob["fn"]]
            s_ty = fn.params[0][1]
            sname = deref_ty(s_ty).name
            num, val, names = mk_num(m, S, "a", ob["k"], ob["ln"], inputs, wrap=(sname == "Number"))
            arg = m.temp_ref(num) if s_ty.k == "ref" else num
            res = m.run_function(fn, [arg], {})
            tgt = fn.ret.name
            kg, rg, ng, c1g, c2g = sem(S, m, res)
            ks, rs, ns, c1s, c2s = sem(S, m, val)
            want_kind = {"f64": "F64", "Dual": "Dual", "Dual2": "Dual2", "Number": ks}[tgt]
            props.append(("target kind", kg == want_kind))
            props.append(("value kept", fr_eq(rg, rs)))
            conv_soft = ("the value is moved, not recomputed (bit-exact)", not rg.ar)
            inner = m.strip(res)
            if isinstance(inner, Enum):
                inner = inner.fields[0]
            allv = [x.id for x in names]
            if isinstance(inner, Struct):
                props.append(("well-formed", shape_ok(S, inner)))
                props.append(("keeps exactly the source names", union_exact(S, inner, [allv])))
                for v in allv:
                    props.append((f"d/d[{v}] kept", fr_eq(c1g(v), c1s(v))))
                if kg == "Dual2":
                    for v in allv:
                        for w in allv:
                            props.append(("Hessian kept / zero when raised", fr_eq(c2g(v, w), c2s(v, w))))
            extra = []

            def mk_sc(env):
                return {"kind": "from", "a": num_json(inputs[0], env), "wrapped": sname == "Number", "target": tgt, "by_ref": s_ty.k == "ref"}

            def compare(o, env, sc_):
                mm = []
                a = dict(sc_["a"])
                if o["kind"] != want_kind:
                    mm.append(f"kind {o['kind']} expected {want_kind}")
                if not close(o["real"], a.get("f64", a.get("real"))):
                    mm.append("value changed")
                if o["kind"] != "F64":
                    a.setdefault("vars", []); a.setdefault("dual", []); a.setdefault("real", a.get("f64"))
                    a.setdefault("dual2", [0.0] * (len(a["vars"]) ** 2))
                    if a["kind"] != "Dual2":
                        a["dual2"] = [0.0] * (len(a["vars"]) ** 2)
                    mm += json_same_by_name(o, a, 2 if o["kind"] == "Dual2" else 1)
                    if sorted(o["vars"]) != sorted(f"v{v}" for v in a["vars"]) or len(o["dual"]) != len(o["vars"]):
                        mm.append(f"names/shape {o['vars']} |dual|={len(o['dual'])}")
                return mm
        elif kind == "numop":
            fn = P.functions[ob["fn"]]
            sub, op = ob["sub"], ob["op"]
            t0 = fn.params[0][1]
            a_num, a_val, a_names = mk_num(m, S, "a", "F64" if ob["ka"] == "bare" else ob["ka"], ob["la"], inputs, wrap=ob["ka"] != "bare")
            args = [m.temp_ref(a_num) if t0.k == "ref" else a_num]
            vals = [a_val]
            kinds = ["F64" if ob["ka"] == "bare" else ob["ka"]]
            names = [x.id for x in a_names]
            pexpr = None
            if sub in ("bin", "cmp"):
                t1 = fn.params[1][1]
                b_num, b_val, b_names = mk_num(m, S, "b", "F64" if ob["kb"] == "bare" else ob["kb"], ob["lb"], inputs, wrap=ob["kb"] != "bare")
                args.append(m.temp_ref(b_num) if t1.k == "ref" else b_num)
                vals.append(b_val); kinds.append("F64" if ob["kb"] == "bare" else ob["kb"])
                names += [x.id for x in b_names]
            elif op == "pow":
                pexpr = z3.Real("p")
                args.append(F(pexpr))
            reals = [sem(S, m, v)[1] for v in vals]
            if op in ("div", "rem"):
                m.assume(reals[1].z() != 0)
            if op == "log":
                m.assume(reals[0].z() > 0)
            if op == "pow":
                m.assume(reals[0].z() > 0)
            if op == "inv_norm_cdf":
                m.assume(reals[0].z() > 0); m.assume(reals[0].z() < 1)
            mixed = set(kinds) == {"Dual", "Dual2"}
            soft = []
            try:
                res = m.run_function(fn, args, {})
                panicked = None
            except RustPanic as e:
                res, panicked = None, e.msg
            props.append(("first/second order mix is refused, everything else computes", (panicked is not None) == mixed))
            if res is not None and not mixed:
                # the same operator applied to the contained values (their own MIR bodies / float arithmetic)
                tys = [TYN[k] for k in kinds]
                if sub == "bin":
                    want = m.call_text(f"<&{tys[0]} as {TRAIT[op]}<&{tys[1]}>>::{op}", [m.temp_ref(vals[0]), m.temp_ref(vals[1])],
                                       [parse_type("&" + tys[0]), parse_type("&" + tys[1])], parse_type("?out") if False else Ty("other", "?"))
                    props += sem_equal(S, m, res, want, names)
                    (n1_, d1_), (n2_, d2_) = sem(S, m, res)[1].pair(), sem(S, m, want)[1].pair()
                    soft.append((f"{op}: the container's value is produced by the same floating-point operations as the contained operator (bit-identical)",
                                 bool(z3.eq(n1_, n2_) and z3.eq(d1_, d2_))))
                elif sub == "cmp":
                    if op == "eq":
                        want = m.call_text(f"<{tys[0]} as PartialEq<{tys[1]}>>::eq", [m.temp_ref(vals[0]), m.temp_ref(vals[1])],
                                           [parse_type("&" + tys[0]), parse_type("&" + tys[1])], parse_type("bool"))
                        props.append(("== equals == of the contained values", b_eq(res, want)))
                    else:
                        lt, eq = f_cmp("lt", reals[0], reals[1]), f_cmp("eq", reals[0], reals[1])
                        props.append(("Some", res.variant == "Some"))
                        if res.variant == "Some":
                            props.append(("ordering of the values", {-1: lt, 0: eq, 1: b_not(b_or(lt, eq))}[res.fields[0].idx]))
                else:
                    t = tys[0]
                    if op == "neg":
                        want = m.call_text(f"<&{t} as Neg>::neg", [m.temp_ref(vals[0])], [parse_type("&" + t)], Ty("other", "?"))
                    elif op == "pow":
                        want = m.call_text(f"<&{t} as Pow<f64>>::pow", [m.temp_ref(vals[0]), F(pexpr)], [parse_type("&" + t), parse_type("f64")], Ty("other", "?")) if t != "f64" else \
                            m.call_text("f64::powf", [vals[0], F(pexpr)], [F64_T, F64_T], F64_T)
                    elif op == "abs":
                        want = m.call_text(f"<{t} as Signed>::abs", [m.temp_ref(vals[0])], [parse_type("&" + t)], Ty("other", "?"))
                    else:
                        want = m.call_text(f"<{t} as MathFuncs>::{op}", [m.temp_ref(vals[0])], [parse_type("&" + t)], Ty("other", "?"))
                    props += sem_equal(S, m, res, want, names)
            extra = [pexpr] if pexpr is not None else []

            def mk_sc(env):
                s = {"kind": {"bin": "number_binop", "cmp": "number_cmp", "un": "number_unop"}[sub], "op": op, "ref_a": t0.k == "ref"}
                s["a"] = {"bare_f64": env[str(inputs[0]["real"])]} if ob["ka"] == "bare" else num_json(inputs[0], env)
                if sub in ("bin", "cmp"):
                    s["ref_b"] = fn.params[1][1].k == "ref"
                    s["b"] = {"bare_f64": env[str(inputs[1]["real"])]} if ob["kb"] == "bare" else num_json(inputs[1], env)
                if pexpr is not None:
                    s["p"] = env["p"]
                return s

            def compare(o, env, sc_):
                # native comparison against the contained operator run natively as well
                mm = []
                def contained(j):
                    if "bare_f64" in j:
                        return {"f64": j["bare_f64"]}, "F64"
                    if j["kind"] == "F64":
                        return {"f64": j["f64"]}, "F64"
                    return j, j["kind"]
                ca, ka_ = contained(sc_["a"])
                if sub == "bin":
                    cb, kb_ = contained(sc_["b"])
                    if ka_ == "F64" and kb_ == "F64":
                        import math
                        x, y = ca["f64"], cb["f64"]
                        w = {"add": x + y, "sub": x - y, "mul": x * y, "div": x / y, "rem": math.fmod(x, y)}[op]
                        want = {"kind": "F64", "real": w, "vars": [], "dual": [], "dual2": []}
                    else:
                        want = native_run([{"kind": "dual_binop", "ty": "Dual2" if "Dual2" in (ka_, kb_) else "Dual", "op": op, "a": ca, "b": cb}], "dev")[0]
                        want["kind"] = "Dual2" if "Dual2" in (ka_, kb_) else "Dual"
                    if o.get("kind") != want["kind"]:
                        mm.append(f"kind {o.get('kind')} expected {want['kind']}")
                    else:
                        want.setdefault("dual2", [0.0] * len(want["vars"]) ** 2); o.setdefault("dual2", [0.0] * len(o["vars"]) ** 2)
                        mm += json_same_by_name(o, want, 2 if want["kind"] == "Dual2" else 1)
                elif sub == "un":
                    if ka_ == "F64":
                        return mm  # float path: trusted std function
                    want = native_run([{"kind": "dual_unop", "ty": ka_, "op": op, "a": ca, "p": sc_.get("p", 0.0)}], "dev")[0]
                    if o.get("kind") != ka_:
                        mm.append(f"kind {o.get('kind')} expected {ka_}")
                    else:
                        mm += json_same_by_name(o, want, 2 if ka_ == "Dual2" else 1)
                else:
                    x = ca.get("f64", ca.get("real")); cb, _ = contained(sc_["b"]); y = cb.get("f64", cb.get("real"))
                    if op == "partial_cmp" and o["partial_cmp"] != (x > y) - (x < y):
                        mm.append(f"partial_cmp native={o['partial_cmp']} values {x} {y}")
                return mm
        else:
            k = ob["k"]
            disc = number_variants(S)[k][0]
            terms = []
            names = []
            for i in range(2):
                n_, v_, nm = mk_num(m, S, f"t{i}", k, 1 if k != "F64" else 0, inputs)
                terms.append((n_, v_)); names += [x.id for x in nm]
            from mirsym.models_coll import ListIt
            res = m.call_text("<Number as Sum>::sum", [ListIt([t for t, _ in terms])], [parse_type("std::vec::IntoIter<Number>")], parse_type("Number"))
            t = TYN[k]
            want = m.call_text(f"<&{t} as Add<&{t}>>::add", [m.temp_ref(terms[0][1]), m.temp_ref(terms[1][1])], [parse_type("&" + t)] * 2, Ty("other", "?"))
            props += [("sum: " + d, p) for d, p in sem_equal(S, m, res, want, names)]
            z = m.call_text("<Number as Zero>::zero", [], [], parse_type("Number"))
            o1 = m.call_text("<Number as One>::one", [], [], parse_type("Number"))
            addf = [f for kd, op, f in enum_number_ops(P) if op == "add" and all(tt.k == "ref" and tt.args[0].name == "Number" for _, tt in f.params)][0]
            mulf = [f for kd, op, f in enum_number_ops(P) if op == "mul" and all(tt.k == "ref" and tt.args[0].name == "Number" for _, tt in f.params)][0]
            r1 = m.run_function(addf, [m.temp_ref(z), m.temp_ref(terms[0][0])], {})
            r2 = m.run_function(mulf, [m.temp_ref(o1), m.temp_ref(terms[0][0])], {})
            props += [("zero + a: " + d, p) for d, p in sem_equal(S, m, r1, terms[0][1], names)]
            props += [("one * a: " + d, p) for d, p in sem_equal(S, m, r2, terms[0][1], names)]
            extra = []

            def mk_sc(env):
                return {"kind": "number_sum", "terms": [num_json(r, env) for r in inputs]}

            def compare(o, env, sc_):
                js = sc_["terms"]
                want = {"real": sum(j.get("f64", j.get("real")) for j in js), "vars": sorted({v for j in js for v in j.get("vars", [])})}
                mm = []
                if not close(o["real"], want["real"]):
                    mm.append("sum value")
                for v in want["vars"]:
                    if not close(jc1(o, f"v{v}"), sum(jc1(j, v) for j in js if "vars" in j)):
                        mm.append(f"sum d/dv{v}")
                return mm

        def replay(model):
            env = input_env(model, inputs, extra)
            sc_ = mk_sc(env)
            out = {"scenario": sc_, "mismatch": [], "native": {}, "reproduced": False}
            for prof in ("dev", "release"):
                o = native_run([sc_], prof)[0]
                out["native"][prof] = o
                if kind == "numop":
                    mixed_ = {sc_["a"].get("kind"), sc_.get("b", {}).get("kind")} == {"Dual", "Dual2"}
                    if bool(o.get("panic")) != mixed_:
                        out["mismatch"].append(f"{prof}: panic={bool(o.get('panic'))} but mixed={mixed_}")
                        continue
                    if o.get("panic"):
                        continue
                elif o.get("panic"):
                    out["mismatch"].append(f"{prof}: panic {o.get('msg')}"); continue
                if "error" in o:
                    out["mismatch"].append(f"{prof}: replay error {o['error']}"); continue
                for x in compare(o, env, sc_):
                    out["mismatch"].append(f"{prof}: {x}")
            out["reproduced"] = any("replay error" not in x for x in out["mismatch"])
            return out
        def pool_replay(model):
            import math
            env0 = input_env(model, inputs, extra) if model is not None else None
            out = {"scenario": None, "mismatch": [], "native": {}, "reproduced": False}
            if env0 is None:
                return out
            for x, y in ((49.0, 49.0), (1.0, 3.0), (0.1, 0.3), (1e-300, 1e-310), (7.0, 0.7), (5.0, 14.07), (-2.5, 0.1)):
                env = dict(env0)
                env[str(inputs[0]["real"])] = x; env[str(inputs[1]["real"])] = y
                sc_ = mk_sc(env)
                def plain(j):
                    return j["bare_f64"] if "bare_f64" in j else j["f64"] if j.get("kind") == "F64" else None
                fa, fb = plain(sc_["a"]), plain(sc_["b"])
                for prof in ("dev", "release"):
                    o = native_run([sc_], prof)[0]
                    if o.get("panic") or "error" in o:
                        continue
                    if fa is not None and fb is not None:
                        w = {"add": fa + fb, "sub": fa - fb, "mul": fa * fb, "div": fa / fb, "rem": math.fmod(fa, fb)}[sc_["op"]]
                    else:
                        ja = {"f64": fa} if fa is not None else sc_["a"]
                        jb = {"f64": fb} if fb is not None else sc_["b"]
                        w = native_run([{"kind": "dual_binop", "ty": "Dual2" if "Dual2" in (ja.get("kind"), jb.get("kind")) else "Dual", "op": sc_["op"], "a": ja, "b": jb}], prof)[0].get("real")
                    g = o.get("real")
                    if w is not None and g is not None and g != w and not (g != g and w != w):
                        out["mismatch"].append(f"{prof}: {sc_['op']} on values {x!r}, {y!r}: container gives {g!r}, contained operator gives {w!r}")
                        out["scenario"] = sc_; out["native"][prof] = o
                if out["mismatch"]:
                    break
            out["reproduced"] = bool(out["mismatch"])
            return out
        def conv_pool_replay(model):
            import math
            env0 = input_env(model, inputs, extra) if model is not None else None
            out = {"scenario": None, "mismatch": [], "native": {}, "reproduced": False}
            if env0 is None:
                return out
            for x in (0.1, 49.0, 1e-310, -0.0, 1.0 / 3.0, 1.7976931348623157e308, 5e-324):
                env = dict(env0); env[str(inputs[0]["real"])] = x
                sc_ = mk_sc(env)
                for prof in ("dev", "release"):
                    o = native_run([sc_], prof)[0]
                    g = o.get("real")
                    if g is None or o.get("panic") or "error" in o:
                        continue
                    if g != x or math.copysign(1.0, g) != math.copysign(1.0, x):
                        out["mismatch"].append(f"{prof}: conversion changes the value {x!r} into {g!r}")
                        out["scenario"] = sc_; out["native"][prof] = o
                if out["mismatch"]:
                    break
            out["reproduced"] = bool(out["mismatch"])
            return out
        add_props(chk, props, replay)
        if kind == "numop":
            for d_, ok_ in soft:
                chk.add_soft(d_, ok_, pool_replay)
        if kind in ("set_order", "from"):
            chk.add_soft(conv_soft[0], conv_soft[1], conv_pool_replay)
        return chk
    return explore_ob(harness, max_paths=4000, max_seconds=1200)


def num_json(rec, env):
    g = lambda v: env[str(v)] if is_sym(v) else v
    if rec["kind"] == "F64":
        return {"kind": "F64", "f64": g(rec["real"])}
    j = rec_json(rec, env)
    j["kind"] = rec["kind"]
    return j


def role_of(f):
    return {"site": f.get("ob", "").split(" [")[0].split(" source")[0]}


def run(tier, seed):
    ev = C.Evidence(PID, tier, seed, "model_checking")
    obs = obligations(2, tier)
    results = run_pool(obs, worker, seed=seed)
    tot = summarize(results)
    if tot["panics"]:
        tot["undecided"].append(f"unexpected panic leaves: {tot['panics'][:3]}")
    standard_finish(PID, ev, obs, results, tot, role_of,
                    bounds={"tables": "set_order and set_order_clone 3x3 (source kind x target order) - complete; every From impl of from.rs; every Number operator body x all 9 kind pairings - complete",
                            "contents": "contained Dual/Dual2 with 0..2 (quick) / 0..3 (thorough) symbolic names and symbolic real contents; requested name lists of 0..2 symbolic names, duplicates allowed",
                            "outside": "more names per number; IEEE rounding"},
                    rule="obligation = (function body, kind pairing, sizes); explored into feasible paths; one validity query per path. "
                         "For Number operators the oracle is the same operator executed on the contained values (their own MIR bodies), so a wrong arm or a computing mixed arm is a disagreement",
                    assumptions=["reals instead of IEEE floats", "mirsym library models", "the contained operators themselves are the subject of C01/C02/C19"])


def replay(path):
    obj = json.load(open(path))
    print(json.dumps(obj.get("native"), indent=1)[:3000])
    return 1 if obj.get("reproduced") else 0
