"""C16 — saving and loading an object gives back an equal object (PARTIAL; engine M).
Decided here:
 (a) the JSON number kernel: serde_json's Deserializer::f64_from_parts (MIR of the pinned serde_json as compiled with the
     repository's feature set, regenerated on every run) interpreted in IEEE-754 semantics (z3 FloatingPoint) on
     17-significant-digit decimals in [1,10): does the text of a double read back as the same double?
 (b) rebuild-on-load: From<NamedCalDataModel> for NamedCal and From<FXRatesDataModel> for FXRates executed by mirsym on the
     data model of an arbitrary valid original: the rebuilt object equals the original.
NOT decided (DESIGN §3.16, §4): serde-derive visitors, bincode, third-party Serialize impls, ryu digit generation."""
import json, re, struct, time
import z3
from vlib import common as C
from specs.dual_common import *
from specs.fx_common import *
from mirsym.mirparse import Program
from mirsym.machine import RustPanic
from mirsym.models import val_eq

PID = "C16"


# ------------------------------------------------------------------ (a) number kernel in FP semantics
def pow10_table(prog, alloc_name):
    lines = prog.allocs.get(alloc_name)
    if not lines:
        return None
    bs = bytearray()
    for l in lines[1:]:
        m = re.match(r"^\s*0x[0-9a-f]+\s*│\s*((?:[0-9a-f_]{2}\s+)+)│", l)
        if m:
            for tok in m.group(1).split():
                if tok != "__":
                    bs.append(int(tok, 16))
    return [struct.unpack("<d", bytes(bs[i:i + 8]))[0] for i in range(0, len(bs) - 7, 8)]


class KernelUndecided(Exception):
    pass


def run_kernel_fp(prog, fn, m_bv, exponent, positive=True):
    """symbolic execution of f64_from_parts with a symbolic 64-bit significand and CONCRETE exponent/sign:
    control flow is concrete, float operations are z3 FloatingPoint terms (round-nearest-even). Returns ('ok', fp) | ('err',) | ('lexical',)"""
    fn.parse_body()
    RNE = z3.RNE()
    F64s = z3.Float64()
    import collections
    # _1 = &mut Deserializer: only the `single_precision` flag (false for from_str / from_slice) is ever read
    loc = {1: collections.defaultdict(bool), 2: positive, 3: m_bv, 4: exponent}
    bb = 0
    steps = 0

    def place_local(p):
        return p.local

    def opval(op):
        if op.kind in ("copy", "move"):
            pl = op.place
            v = loc[pl.local]
            for pr in pl.proj:
                if pr[0] == "deref":
                    continue
                if pr[0] == "field":
                    v = v[pr[1] + 1] if (isinstance(v, tuple) and v and isinstance(v[0], str) and v[0] in ("some", "ok")) else v[pr[1]]
                elif pr[0] == "downcast":
                    continue
                else:
                    raise KernelUndecided(f"projection {pr}")
            return v
        c = op.const
        mm = re.match(r"^(-?\d+)_(i32|u64|usize|i64)$", c)
        if mm:
            return int(mm.group(1))
        mm = re.match(r"^(-?[0-9.]+(?:E[-+]?\d+)?)f64$", c)
        if mm:
            return z3.FPVal(float(mm.group(1)), F64s)
        mm = re.match(r"^\{(alloc\d+): &\[f64; \d+\]\}$", c)
        if mm:
            t = pow10_table(prog, mm.group(1))
            if t is None:
                raise KernelUndecided("POW10 table not found in the dump")
            return ("table", t)
        raise KernelUndecided("constant " + c)
    while True:
        steps += 1
        if steps > 200:
            raise KernelUndecided("step budget")
        stmts, term = fn.block(bb)
        for st in stmts:
            if st.kind != "assign":
                continue
            rvv = st.rv
            d = st.place.local
            if st.place.proj:
                raise KernelUndecided("projected destination")
            if rvv.kind == "use":
                loc[d] = opval(rvv.a)
            elif rvv.kind == "cast":
                v = opval(rvv.a)
                if rvv.c == "IntToFloat":
                    loc[d] = z3.fpUnsignedToFP(RNE, v, F64s) if z3.is_bv(v) else z3.FPVal(float(v), F64s)
                elif rvv.c.startswith("PointerCoercion") or rvv.c == "IntToInt":
                    loc[d] = v
                else:
                    raise KernelUndecided("cast " + rvv.c)
            elif rvv.kind == "binop":
                a, b = opval(rvv.b), opval(rvv.c)
                o = rvv.a
                if o in ("Mul", "Div") and z3.is_fp(a):
                    loc[d] = z3.fpMul(RNE, a, b) if o == "Mul" else z3.fpDiv(RNE, a, b)
                elif o in ("Ge", "Eq", "Lt", "Le", "Gt") and isinstance(a, int) and isinstance(b, int):
                    loc[d] = {"Ge": a >= b, "Eq": a == b, "Lt": a < b, "Le": a <= b, "Gt": a > b}[o]
                elif o == "Eq" and z3.is_fp(a):
                    loc[d] = ("fpeq0", a)
                elif o == "AddWithOverflow":
                    loc[d] = (a + b, False)
                else:
                    raise KernelUndecided(f"binop {o}")
            elif rvv.kind == "unop" and rvv.a == "Neg":
                loc[d] = z3.fpNeg(opval(rvv.b))
            elif rvv.kind == "discriminant":
                v = loc[rvv.a.local]
                loc[d] = 1 if v[0] == "some" else 0
            elif rvv.kind == "ref":
                loc[d] = loc.get(rvv.a.local)
            elif rvv.kind == "adt":
                path = rvv.a
                if path.endswith("::Ok") or "::Ok" in path:
                    loc[d] = ("ok", opval(rvv.b[0][1]))
                elif "::Err" in path:
                    loc[d] = ("err",)
                else:
                    loc[d] = ("adt", path)
            else:
                raise KernelUndecided("rvalue " + rvv.kind)
        k = term.kind
        if k == "goto":
            bb = term.target
        elif k == "return":
            return loc[0]
        elif k == "switch":
            v = opval(term.op)
            if isinstance(v, tuple) and v[0] == "fpeq0":
                # significand is >= 1e16: never zero
                v = False
            if isinstance(v, bool):
                v = 1 if v else 0
            if not isinstance(v, int):
                raise KernelUndecided("symbolic branch in the kernel")
            nxt = term.otherwise
            for val, tb in term.targets:
                if val == v:
                    nxt = tb
            bb = nxt
        elif k == "assert":
            bb = term.target
        elif k == "call":
            callee = term.callee
            args = [opval(a) for a in term.args]
            if "wrapping_abs" in callee:
                loc[term.dest.local] = abs(args[0])
            elif callee.endswith("::get::<usize>") or "]>::get" in callee:
                tab, i = args
                loc[term.dest.local] = ("some", z3.FPVal(tab[1][i], F64s)) if i < len(tab[1]) else ("none",)
            elif "is_infinite" in callee:
                loc[term.dest.local] = False     # the result for the decimals considered here lies in [1, 10]
            elif "lexical" in callee or "parse_concise_float" in callee or "parse_truncated_float" in callee:
                return ("lexical", callee)
            elif "::error" in callee:
                loc[term.dest.local] = ("error",)
            else:
                raise KernelUndecided("call " + callee[:80])
            bb = term.target
        else:
            raise KernelUndecided("terminator " + k)


def kernel_obligation(tier):
    t0 = time.time()
    res = {"ob": "serde_json number kernel (17-digit decimals in [1,10))", "queries": 0, "candidates": [], "violations": [], "undecided": [], "solver_s": 0.0, "path": None}
    prog = Program(C.mir_dump("serde_json"))
    fns = [f for f in prog.by_name.get("f64_from_parts", []) if f.kind == "fn"]
    if len(fns) != 1:
        res["undecided"].append(f"expected one f64_from_parts body in the serde_json MIR, found {len(fns)}")
        return res
    fn = fns[0]
    res["function"] = fn.path[-120:]
    m = z3.BitVec("m", 64)
    try:
        out = run_kernel_fp(prog, fn, m, -16)
    except KernelUndecided as e:
        res["undecided"].append("kernel not interpretable: " + str(e))
        return res
    if out[0] == "lexical":
        res["path"] = "float_roundtrip feature: f64_from_parts delegates to serde_json::lexical (correctly rounded by documented contract) - obligation discharged by contract, not by the solver"
        res["by_contract"] = True
        return res
    if out[0] != "ok":
        res["undecided"].append(f"kernel returned {out[0]} for exponent -16")
        return res
    res["path"] = "default serde_json number parsing: (significand as f64) / POW10[16]"
    got = out[1]
    s = z3.Solver()
    s.set("timeout", 120000 if tier == "quick" else 600000)
    P16 = 10 ** 16
    s.add(z3.UGE(m, z3.BitVecVal(P16, 64)), z3.ULT(m, z3.BitVecVal(10 * P16, 64)))
    blocked = []
    rounds = 8 if tier == "quick" else 24
    for e in (0, 1, 2, 3):
        # x = sig * 2^(e-52), sig a 53-bit integer with the top bit set; m/10^16 within half an ulp of x  <=>  x is THE double of that text
        for _ in range(rounds):
            sig = z3.BitVec(f"sig{e}", 64)
            s.push()
            s.add(z3.UGE(sig, z3.BitVecVal(1 << 52, 64)), z3.ULT(sig, z3.BitVecVal(1 << 53, 64)))
            a = z3.ZeroExt(64, sig) * z3.BitVecVal(2 * P16, 128)
            b = z3.ZeroExt(64, m) * z3.BitVecVal(1 << (53 - e), 128)
            diff = z3.If(z3.UGE(a, b), a - b, b - a)
            s.add(z3.ULT(diff, z3.BitVecVal(P16, 128)))
            x = z3.fpFP(z3.BitVecVal(0, 1), z3.BitVecVal(1023 + e, 11), z3.Extract(51, 0, sig))
            s.add(z3.Not(z3.fpEQ(got, x)))
            for bm in blocked:
                s.add(m != z3.BitVecVal(bm, 64))
            t1 = time.time()
            r = s.check()
            res["solver_s"] += time.time() - t1
            res["queries"] += 1
            if r == z3.unsat:
                s.pop(); break
            if r == z3.unknown:
                res["undecided"].append(f"solver unknown in binade 2^{e}"); s.pop(); break
            mv = s.model().eval(m).as_long(); sv = s.model().eval(sig).as_long()
            s.pop()
            blocked.append(mv)
            xbits = ((1023 + e) << 52) | (sv & ((1 << 52) - 1))
            xval = struct.unpack("<d", struct.pack("<Q", xbits))[0]
            cand = {"text_digits": mv, "double": repr(xval), "bits": str(xbits)}
            # replay: save and load the double with the real to_json / from_json
            o = {p: native_run([{"kind": "json_f64", "bits": str(xbits)}], p)[0] for p in ("dev", "release")}
            cand["native"] = o
            if any(not v.get("same", True) or not v.get("tagged_same", True) for v in o.values()):
                res["violations"].append(cand)
                break
            res["candidates"].append(cand)     # the real printer chose other digits for this double: not a violation, blocked
        if res["violations"]:
            break
    res["wall_s"] = round(time.time() - t0, 2)
    return res


def deep_eq(m, a, b):
    """structural equality of two values WITHOUT dispatching to the crate's own == (NamedCal == walks 84k days)"""
    a, b = m.strip(a), m.strip(b)
    if isinstance(a, (Struct, Enum, Tup)) and type(a) is type(b):
        if isinstance(a, Enum) and a.idx != b.idx:
            return False
        if isinstance(a, Struct) and a.name != b.name:
            return False
        if len(a.fields) != len(b.fields):
            return False
        r = True
        for x, y in zip(a.fields, b.fields):
            r = b_and(r, deep_eq(m, x, y))
        return r
    if isinstance(a, Seq) and isinstance(b, Seq):
        if len(a.items) != len(b.items):
            return False
        r = True
        for x, y in zip(a.items, b.items):
            r = b_and(r, deep_eq(m, x, y))
        return r
    return val_eq(m, a, b)


# ------------------------------------------------------------------ (b) rebuild on load
def rebuild_obligations(tier):
    obs = []
    for s in ["tgt", "LDN", "tgt,ldn", "Tgt,Ldn|fed", "tgt,ldn|ldn", "all", "bus|nyc"]:
        obs.append(dict(id=f"NamedCal reload {s!r}", kind="namedcal", s=s))
    for q in (1, 2):
        for pairs, base, k in structures(q):
            if is_tree(pairs, k):
                for upd in (False, True):
                    obs.append(dict(id=f"FXRates reload {[(NAMES[a], NAMES[b]) for a, b in pairs]} base={None if base is None else NAMES[base]} after_update={upd}", kind="fx", pairs=pairs, base=base, k=k, upd=upd))
    return obs


def rebuild_worker(ob):
    P, S = get_world()

    def harness(m):
        m.div_mode = "frac"
        chk = Check(m)
        props = []
        replay = None
        try:
            if ob["kind"] == "namedcal":
                orig = m.call_text("NamedCal::try_new", [Str(ob["s"])], [parse_type("&str")], parse_type("Result<NamedCal, PyErr>"))
                props.append(("original accepted", orig.variant == "Ok"))
                if orig.variant == "Ok":
                    f = dict(zip(S.structs["NamedCal"], orig.fields[0].fields))
                    model_ = Struct("NamedCalDataModel", [f["name"]])      # what is saved: the name only
                    form, back = rebuild_on_load(m, "NamedCal", model_)
                    if form == "try_from":
                        props.append(("the saved form of a valid calendar loads", back.variant == "Ok"))
                        back = back.fields[0] if back.variant == "Ok" else None
                    if back is not None:
                        props.append(("rebuilt calendar is structurally equal to the original (name, members, settlement calendars)", deep_eq(m, back, orig.fields[0])))
            else:
                pairs, base, k = ob["pairs"], ob["base"], ob["k"]
                q = len(pairs)
                rates = [z3.Real(f"r{i}") for i in range(q)]
                newr = z3.Real("u0")
                for r in rates + [newr]:
                    m.assume(r > 0)
                quotes = [mk_quote(m, S, a, b, number_f64(S, rates[i]), NONE) for i, (a, b) in enumerate(pairs)]
                basev = NONE if base is None else some(mk_ccy(m, NAMES[base]))
                res = m.call_text("FXRates::try_new", [Seq(quotes), basev], [parse_type("Vec<FXRate>"), parse_type("Option<Ccy>")], parse_type("Result<FXRates, PyErr>"))
                cell = Cell(res.fields[0])
                if ob["upd"]:
                    upd = [mk_quote(m, S, pairs[0][0], pairs[0][1], number_f64(S, newr), NONE)]
                    m.call_text("FXRates::update", [Ref(cell, (), True), Seq(upd)], [parse_type("&mut FXRates"), parse_type("Vec<FXRate>")], parse_type("Result<(), PyErr>"))
                f = dict(zip(S.structs["FXRates"], cell.v.fields))
                model_ = Struct("FXRatesDataModel", [f["fx_rates"], f["currencies"]])     # what is saved: quotes and currency order
                form, back = rebuild_on_load(m, "FXRates", model_)
                if form == "try_from":
                    props.append(("the saved form of a valid market loads", back.variant == "Ok"))
                    if back.variant != "Ok":
                        raise RustPanic("the saved form of a valid market is refused on load")
                    back = back.fields[0]
                fb = dict(zip(S.structs["FXRates"], back.fields))
                props.append(("same currencies in the same order", [c.fields[0].s for c in fb["currencies"].items] == [c.fields[0].s for c in f["currencies"].items]))
                _, a1, _ = array_of(S, cell.v)
                kind2, a2, _ = array_of(S, back)
                props.append(("rebuilt matrix is first order", kind2 == "Dual"))
                if a1.shape == a2.shape:
                    for e1, e2 in zip(a1.data, a2.data):
                        r1 = e1 if isinstance(e1, F) else parts(S, e1)["real"]
                        r2 = e2 if isinstance(e2, F) else parts(S, e2)["real"]
                        props.append(("every rate equal after reload", fr_eq(r1, r2)))
                        if not isinstance(e1, F) and not isinstance(e2, F) and e1.name == e2.name == "Dual":
                            for nm in set(var_names(S, e1)) | set(var_names(S, e2)):
                                props.append((f"sensitivity to {nm} equal after reload", fr_eq(str_coef1(S, e1, nm), str_coef1(S, e2, nm))))
                else:
                    props.append(("matrix shape", False))
        except RustPanic as e:
            props.append(("load must not abort on a model saved from a valid object: " + e.msg[:80], False))
        if ob["kind"] == "fx":
            def replay(model):
                env = {f"r{i}": float(mval(model, rates[i])) for i in range(q)}
                env["u0"] = float(mval(model, newr))
                # save / load natively at first order (the state in which FX markets are compared)
                sc = {"kind": "fx", "names": [NAMES[x] for x in range(k)], "quotes": [quote_json(a, b, env[f"r{i}"]) for i, (a, b) in enumerate(pairs)],
                      "base": None if base is None else NAMES[base], "ops": ([{"op": "update", "quotes": [quote_json(pairs[0][0], pairs[0][1], env["u0"])]}] if ob["upd"] else []), "roundtrip": True}
                out = {"scenario": sc, "mismatch": [], "native": {}, "reproduced": False}
                for prof in ("dev", "release"):
                    o = native_run([sc], prof)[0]
                    out["native"][prof] = {kk: vv for kk, vv in o.items() if kk != "text"}
                    if o.get("reload_err") or o.get("reload_panic") or o.get("panic"):
                        out["mismatch"].append(f"{prof}: reload failed {o.get('reload_err') or 'panic'}"); continue
                    if "reloaded" not in o:
                        out["mismatch"].append(f"{prof}: {o}"); continue
                    last = o["steps"][-1]
                    if o["reloaded"]["index"] != last["index"]:
                        out["mismatch"].append(f"{prof}: currency indices after reload {o['reloaded']['index']} before {last['index']}")
                    for i in range(k):
                        for j in range(k):
                            a_, b_ = last["rates"][i][j], o["reloaded"]["rates"][i][j]
                            if (a_ is None) != (b_ is None) or (a_ and not close(a_["real"], b_["real"], 1e-12)):
                                out["mismatch"].append(f"{prof}: rate {i},{j} before={a_ and a_['real']} after reload={b_ and b_['real']}")
                    if not o.get("equal"):
                        out["mismatch"].append(f"{prof}: reloaded object != original")
                out["reproduced"] = bool(out["mismatch"])
                return out
            add_props(chk, props, replay)
        else:
            add_props(chk, props, None)
        return chk
    r = explore_ob(harness, max_paths=200, max_seconds=900, max_steps=40000000)
    return r


def run(tier, seed):
    ev = C.Evidence(PID, tier, seed, "other")
    get_world(); replay_exe("dev"); replay_exe("release")
    kr = kernel_obligation(tier)
    obs = rebuild_obligations(tier)
    results = run_pool(obs, rebuild_worker, seed=seed)
    tot = summarize(results)
    violations, known_lines, undecided = [], [], list(tot["undecided"]) + list(kr["undecided"])
    n = 0
    for v in kr["violations"]:
        n += 1
        rec = {"role": {"site": "serde_json number parsing", "input_class": "17-significant-digit double"}, "kernel": kr.get("path"), **v, "reproduced": True}
        path = C.save_replay(PID, n, rec)
        k = C.match_known(PID, rec["role"])
        if k:
            known_lines.append(f"KNOWN-FINDING: property={PID} {k['what']}")
        else:
            violations.append(path)
            print(f"counterexample: the double {v['double']} (decimal digits {v['text_digits']}e-16) does not read back: native {v['native']['dev']}")
    for f in tot["fails"]:
        n += 1
        if "reproduced" in f and not f["reproduced"]:
            C.save_replay(PID, f"nonrepro-{n}", f)
            undecided.append(f"ENCODING-MISMATCH {f.get('ob')}: reload difference does not reproduce natively through to_json/from_json")
            continue
        path = C.save_replay(PID, n, f)
        violations.append(path)
        print("counterexample:", f.get("ob"), "::", "; ".join(f.get("mismatch", []))[:300] or f.get("desc", "")[:200])
    for u in tot["unknown"]:
        undecided.append("solver unknown: " + u[:150])
    if tot["panics"]:
        undecided.append(f"panic leaves: {tot['panics'][:2]}")
    ev.cov(explanation="PARTIAL check of C16 by solver-based reasoning over the real code. (a) Number kernel: the MIR of serde_json::de::Deserializer::f64_from_parts, as compiled with the repository's feature set, is executed with a symbolic 64-bit significand in IEEE-754 semantics (z3 FloatingPoint, RNE) and compared with 'the double whose half-ulp neighbourhood contains the decimal' stated in 128-bit integer arithmetic, for all 9*10^16 17-digit decimals in [1,10); every solver candidate is saved and loaded natively through to_json/from_json and only a native mismatch counts. "
                       "(b) Rebuild-on-load: the two From<...DataModel> conversions are executed by mirsym on the data model of valid originals (name grammar; every FX tree structure with 1..2 quotes, symbolic rates, also after an update) and the rebuilt object is proved equal. NOT covered: serde-derive visitors, bincode, third-party Serialize impls, ryu.",
           kernel=kr, functions_encoded=sorted(tot["fns"])[:80] + [kr.get("function", "")], library_models=sorted(tot["models"]),
           obligations=1 + len(obs), discharged=(0 if (kr["violations"] or kr["undecided"]) else 1) + sum(1 for r in results if r and not r.get("error") and not r.get("fails") and not r.get("undecided")),
           evaluations=kr["queries"] + tot["checks"], distinct_nontrivial=max(2, tot["paths"]),
           samples=[{"kernel_path": kr.get("path"), "queries": kr["queries"], "blocked_candidates": kr["candidates"][:3], "violations": kr["violations"][:2]}] +
                   [{"obligation": r["ob"], "paths": r.get("paths"), "checks": r.get("checks"), "holds": r.get("holds")} for r in results[:: max(1, len(results) // 6)] if r],
           solver_time_s=round(kr["solver_s"] + tot["solver_s"], 2))
    ev.assume("ryu prints a decimal that lies within half an ulp of the double (documented contract); a 17-digit text class is used as representative of long decimals",
              "with the float_roundtrip feature the lexical parser is correctly rounded by serde_json's documented contract (discharged by contract, stated in the evidence)",
              "serde-derive expansions, bincode and third-party Serialize impls round-trip field by field (assumed, outside reach)")
    C.finish(ev, violations, undecided[:30], sorted(set(known_lines)))


def replay(path):
    obj = json.load(open(path))
    if "bits" in obj:
        o = native_run([{"kind": "json_f64", "bits": obj["bits"]}], "dev")[0]
        print(json.dumps(o, indent=1))
        return 0 if o.get("same") and o.get("tagged_same") else 1
    print(json.dumps(obj, indent=1)[:2000])
    return 1
