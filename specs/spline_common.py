"""Reference B-splines (exact polynomial pieces per knot span) for C14 / C15, independent of the code under test."""
from fractions import Fraction as Fr


def padd(p, q):
    n = max(len(p), len(q))
    return [(p[i] if i < len(p) else 0) + (q[i] if i < len(q) else 0) for i in range(n)]


def pmul(p, q):
    if not p or not q:
        return []
    r = [Fr(0)] * (len(p) + len(q) - 1)
    for i, a in enumerate(p):
        for j, b in enumerate(q):
            r[i + j] += a * b
    return r


def pscale(p, c):
    return [a * c for a in p]


def pdiff(p, m=1):
    for _ in range(m):
        p = [p[i] * i for i in range(1, len(p))]
    return p


def peval(p, x):
    r = 0
    for a in reversed(p):
        r = r * x + a
    return r


def spans(t):
    """non-empty knot spans [(lo, hi)] in order"""
    out = []
    for a, b in zip(t, t[1:]):
        if a < b:
            out.append((a, b))
    return out


def bspline_pieces(t, k):
    """B[i][span] = polynomial (coefficient list in x) of the i-th B-spline of order k on that span (Cox-de Boor)"""
    sp = spans(t)
    n = len(t) - k
    # order 1
    B = []
    for i in range(len(t) - 1):
        B.append({s: ([Fr(1)] if (t[i] <= s[0] and s[1] <= t[i + 1] and t[i] < t[i + 1]) else []) for s in sp})
    for kk in range(2, k + 1):
        nb = []
        for i in range(len(t) - kk):
            d = {}
            for s in sp:
                p = []
                if t[i + kk - 1] != t[i]:
                    c = Fr(1) / (t[i + kk - 1] - t[i])
                    p = padd(p, pmul([-t[i] * c, c], B[i][s]))
                if t[i + kk] != t[i + 1]:
                    c = Fr(1) / (t[i + kk] - t[i + 1])
                    p = padd(p, pmul([t[i + kk] * c, -c], B[i + 1][s]))
                d[s] = p
            nb.append(d)
        B = nb
    return B[:n], sp


def knot_families(k, tier):
    """knot vectors with k-fold end knots on [0, 4] (Fractions)"""
    fams = [[], [1], [2], [1, 3], [Fr(1, 2), 3]]
    if k >= 3:
        fams += [[2, 2], [1, 1, 3]]
    if k >= 4 and tier == "thorough":
        fams += [[2, 2, 2], [1, 2, 2, 3]]
    if tier == "thorough":
        fams += [[1, 2, 3], [Fr(1, 3), Fr(5, 2)]]
    return [[Fr(0)] * k + [Fr(x) for x in f] + [Fr(4)] * k for f in fams]
