"""C20 — fallible entry points return errors, never abort; date arithmetic is total (engines K + M; partial)."""
import json, z3
from vlib import common as C, kspec
from specs.dual_common import *
from specs.cal_common import *
from mirsym.machine import RustPanic

PID = "C20"
K_QUICK = ["c20_add_days_total", "c08_add_months", "c08_get_roll"]
K_THOROUGH = ["c20_add_days_total", "c20_add_bus_days_total", "c20_lag_total", "c08_add_months", "c08_get_roll"]
CT, DT = parse_type("&ModelCal"), parse_type("&NaiveDateTime")


# ------------------------------------------------------------------ engine M obligations: panic reachability
def m_obligations(tier):
    obs = []
    for fn in ("add_days", "add_bus_days", "lag"):
        for st in (False, True):
            obs.append(dict(id=f"total: {fn} every i8 day count, every day eligible, settlement={st}", kind="date_i8", fn=fn, st=st, G=0))
            obs.append(dict(id=f"total: {fn} n in -2..2, gap<=2, settlement={st}", kind="date_small", fn=fn, st=st, G=2))
    for mod in MODS:
        obs.append(dict(id=f"total: roll {mod} gap<=3", kind="roll", mod=mod, G=3))
    for lv in range(0, 4):
        for ld in range(0, 5):
            obs.append(dict(id=f"Dual::try_new |vars|={lv} |dual|={ld}", kind="dual_try_new", order=1, lv=lv, ld=ld, l2=0))
    for lv in range(0, 3):
        for ld in (0, lv, lv + 1):
            for l2 in sorted({0, lv * lv, lv * lv + 1, 1}):
                obs.append(dict(id=f"Dual2::try_new |vars|={lv} |dual|={ld} |dual2|={l2}", kind="dual_try_new", order=2, lv=lv, ld=ld, l2=l2))
    for s in ["", "u", "us", "usd", "USD", "usdx", "eur", "é", "abé", "12a"]:
        obs.append(dict(id=f"Ccy::try_new({s!r})", kind="ccy", s=s))
    for a, b in [("usd", "eur"), ("usd", "usd"), ("eur", "usd"), ("USD", "usd"), ("us", "eur"), ("usd", "")]:
        obs.append(dict(id=f"FXPair::try_new({a},{b})", kind="fxpair", a=a, b=b))
    for wm in ([], [0], [5, 6], [0, 1, 2, 3, 4, 5], [6, 6], [7], [0, 255]):
        obs.append(dict(id=f"Cal::new week mask {wm}", kind="cal_new", wm=wm))
    # load-time reconstruction of derived state (what serde hands over after parsing a document whose fields or values were altered)
    for nm in ["tgt", "tgt,ldn|nyc", "xyz", "", "tgt|nyc|ldn", "tgt,", "tgt|xyz", "TGT"]:
        obs.append(dict(id=f"load NamedCal saved as name={nm!r}", kind="reload_cal", name=nm))
    from specs.fx_common import structures, ccy_order
    for q in (1, 2):
        for pairs, base, k in structures(q, with_base=False):
            order = ccy_order(pairs, None, k)
            for tag, cur in (("as saved", order), ("empty", []), ("one missing", order[:-1]), ("reversed", order[::-1]), ("extra unknown", order + [k])):
                obs.append(dict(id=f"load FXRates saved quotes {pairs} currencies {tag} {cur}", kind="reload_fx", pairs=pairs, cur=cur, k=k))
    # spline solving: site-count mismatches must be Err, never an abort (obligations shared with C15)
    from specs import C15
    for o in C15.obligations(tier):
        if o["what"] == "errors":
            o = dict(o); o["kind"] = "c15"; o["id"] = "PPSpline::csolve " + o["id"]
            obs.append(o)
    return obs


def m_worker(ob):
    if ob.get("kind") == "c15":
        from specs import C15
        return C15.worker(ob)
    P, S = get_world()
    kind = ob["kind"]
    info = {"panic_inputs": []}

    def harness(m):
        chk = Check(m)
        props = []
        replay = None
        try:
            if kind in ("date_i8", "date_small"):
                G, st = ob["G"], ob["st"]
                d = z3.Int("d")
                n = z3.Int("n")
                if kind == "date_i8":
                    m.assume(n >= -128); m.assume(n <= 127)
                    W = 132
                    m.assume(d >= 400); m.assume(d <= 84000)
                    # every day eligible: quantifier-free via the window
                    for e in range(-W, W + 1):
                        pass
                    m.models.all_eligible = True
                else:
                    m.assume(n >= -2); m.assume(n <= 2)
                    window_assumptions(m, d, G, 3 * (G + 1) + 4, st)
                cal = Struct("ModelCal", [])
                date = NDT(d, 0)
                I8 = parse_type("i8")
                info["n"] = n
                if ob["fn"] == "add_days":
                    r = m.call_text("<ModelCal as DateRoll>::add_days", [m.temp_ref(cal), m.temp_ref(date), n, m.temp_ref(modifier_enum(S, "F")), st],
                                    [CT, DT, I8, parse_type("&Modifier"), parse_type("bool")], parse_type("NaiveDateTime"))
                elif ob["fn"] == "lag":
                    r = m.call_text("<ModelCal as DateRoll>::lag", [m.temp_ref(cal), m.temp_ref(date), n, st], [CT, DT, I8, parse_type("bool")], parse_type("NaiveDateTime"))
                else:
                    if kind == "date_small":
                        m.assume(bus(d))
                    r = m.call_text("<ModelCal as DateRoll>::add_bus_days", [m.temp_ref(cal), m.temp_ref(date), n, st], [CT, DT, I8, parse_type("bool")], parse_type("Result<NaiveDateTime, PyErr>"))
            elif kind == "roll":
                d = z3.Int("d")
                window_assumptions(m, d, ob["G"], 2 * ob["G"] + 2, True)
                for st in (False, True):
                    call_roll(m, Struct("ModelCal", []), NDT(d, 0), modifier_enum(S, ob["mod"]), st)
            elif kind == "dual_try_new":
                vars_ = Seq([Atom(z3.Int(f"v{i}"), f"v{i}") for i in range(ob["lv"])])     # duplicates allowed
                dual = Seq([F(z3.Real(f"d{i}")) for i in range(ob["ld"])])
                VS, VF = parse_type("Vec<String>"), parse_type("Vec<f64>")
                if ob["order"] == 1:
                    r = m.call_text("Dual::try_new", [F(z3.Real("x")), vars_, dual], [F64_T, VS, VF], parse_type("Result<Dual, PyErr>"))
                else:
                    d2 = Seq([F(z3.Real(f"h{i}")) for i in range(ob["l2"])])
                    r = m.call_text("Dual2::try_new", [F(z3.Real("x")), vars_, dual, d2], [F64_T, VS, VF, VF], parse_type("Result<Dual2, PyErr>"))
                if r.variant == "Ok":
                    props.append(("Ok value satisfies the shape invariant", shape_ok(S, r.fields[0])))
                    props.append(("Ok value has duplicate-free names", distinct_names(S, r.fields[0])))
            elif kind == "ccy":
                r = m.call_text("Ccy::try_new", [Str(ob["s"])], [parse_type("&str")], parse_type("Result<Ccy, PyErr>"))
                props.append(("Ok exactly for names of 3 bytes (the documented invariant)", (r.variant == "Ok") == (len(ob["s"].encode()) == 3)))
            elif kind == "fxpair":
                r = m.call_text("FXPair::try_new", [Str(ob["a"]), Str(ob["b"])], [parse_type("&str"), parse_type("&str")], parse_type("Result<FXPair, PyErr>"))
                bad = ob["a"].lower() == ob["b"].lower() or len(ob["a"].encode()) != 3 or len(ob["b"].encode()) != 3
                props.append(("Err exactly for identical or malformed currencies", (r.variant == "Err") == bad))
            elif kind == "cal_new":
                r = m.call_text("Cal::new", [Seq([]), Seq(ob["wm"])], [parse_type("Vec<NaiveDateTime>"), parse_type("Vec<u8>")], parse_type("Cal"))
            elif kind == "reload_cal":
                form, r = rebuild_on_load(m, "NamedCal", Struct("NamedCalDataModel", [Str(ob["name"])]))
                props.append(("the loader returns a value or an error", form == "from" or r.variant in ("Ok", "Err")))
            elif kind == "reload_fx":
                from specs.fx_common import mk_quote, mk_ccy, number_f64, NAMES
                rates = [z3.Real(f"r{i}") for i in range(len(ob["pairs"]))]
                for r_ in rates:
                    m.assume(r_ > 0)
                info["rates"] = rates
                quotes = [mk_quote(m, S, a, b, number_f64(S, rates[i]), NONE) for i, (a, b) in enumerate(ob["pairs"])]
                by = {"fx_rates": Seq(quotes), "currencies": SetV([mk_ccy(m, NAMES[c]) for c in ob["cur"]])}
                form, r = rebuild_on_load(m, "FXRates", Struct("FXRatesDataModel", [by[f] for f in S.structs["FXRatesDataModel"]]))
                props.append(("the loader returns a value or an error", form == "from" or r.variant in ("Ok", "Err")))
        except RustPanic as e:
            within = not (kind == "cal_new" and any(x > 6 for x in ob["wm"]))   # week masks 0-6 are the documented range
            if within:
                msg = e.msg
                def replay(model, msg=msg):
                    out = {"panic": msg, "mismatch": [], "native": {}, "reproduced": False, "scenario": None}
                    if kind in ("date_i8", "date_small"):
                        nv = model.eval(info["n"], model_completion=True).as_long()
                        out["n"] = nv
                        if kind == "date_i8":
                            spec = {"type": "cal", "holidays": [], "weekmask": []}
                            anchor = 19800
                        else:
                            d_ = z3.Int("d")
                            anchor = pick_anchor(model, d_, -12, 12)
                            spec, _, _ = concrete_calendar(model, d_, -14, 14, anchor)
                        op = {"op": ob["fn"], "date": anchor, "days": nv, "settlement": ob["st"], "modifier": "F"}
                        sc = {"kind": "cal", "cal": spec, "ops": [op]}
                        out["scenario"] = sc
                        for prof in ("dev", "release"):
                            o = native_run([sc], prof)[0]
                            out["native"][prof] = o
                            r0 = o.get("results", [None])[0]
                            if isinstance(r0, dict) and r0.get("panic"):
                                out["mismatch"].append(f"{prof}: {ob['fn']}(days={nv}) aborts (panic)")
                        out["reproduced"] = bool(out["mismatch"])
                    elif kind in ("reload_cal", "reload_fx"):
                        if kind == "reload_cal":
                            doc = {"NamedCal": {"name": ob["name"]}}
                        else:
                            from specs.fx_common import NAMES
                            rv_ = [float(mval(model, r_)) if model is not None else 1.5 for r_ in info["rates"]]
                            doc = {"FXRates": {"fx_rates": [{"pair": [{"name": NAMES[a]}, {"name": NAMES[b]}], "rate": {"F64": rv_[i]}, "settlement": None} for i, (a, b) in enumerate(ob["pairs"])],
                                               "currencies": [{"name": NAMES[c]} for c in ob["cur"]]}}
                        sc = {"kind": "json_tagged", "text": json.dumps(doc)}
                        out["scenario"] = sc
                        for prof in ("dev", "release"):
                            o = native_run([sc], prof)[0]
                            out["native"][prof] = o
                            if o.get("panic"):
                                out["mismatch"].append(f"{prof}: from_json aborts (panic) on the document {sc['text'][:160]}")
                        out["reproduced"] = bool(out["mismatch"])
                    elif kind == "cal_new":
                        sc = {"kind": "cal", "cal": {"type": "cal", "holidays": [], "weekmask": ob["wm"]}, "ops": []}
                        o = native_run([sc], "dev")[0]
                        out["native"]["dev"] = o
                        out["reproduced"] = bool(o.get("panic"))
                        if out["reproduced"]:
                            out["mismatch"].append("Cal::new aborts")
                    return out
                chk.add(f"no abort: {msg[:120]}", False, replay)
                return chk
        add_props(chk, props, None) if props else None
        return chk

    class M2(CalModels):
        all_eligible = False

        def pre_dispatch(self, m, cal, self_ty, args, argtys, destty, env):
            if self.all_eligible and self_ty is not None and self_ty.k == "adt" and self_ty.name == "ModelCal" and cal.method in ("is_weekday", "is_holiday", "is_settlement"):
                return cal.method != "is_holiday"
            return super().pre_dispatch(m, cal, self_ty, args, argtys, destty, env)
    r = explore_ob(harness, max_paths=20000, max_seconds=1500, models=M2())
    return r


def role_of_m(f):
    ob = f.get("ob", "")
    if "add_days" in ob and f.get("n") == -128:
        return {"site": "DateRoll::add_days", "input_class": "days = i8::MIN"}
    if ob.startswith("load NamedCal"):
        return {"site": "From<NamedCalDataModel>", "input_class": "saved name that try_new refuses"}
    if ob.startswith("load FXRates"):
        return {"site": "From<FXRatesDataModel>", "input_class": "saved quotes/currencies that try_new refuses or an empty currency list"}
    return {"site": ob.split(" every")[0].split(" n in")[0], "input_class": str(f.get("n", ""))}


def run(tier, seed):
    ev = C.Evidence(PID, tier, seed, "model_checking")
    harnesses = K_QUICK if tier == "quick" else K_THOROUGH
    out = kspec.run_kani_part(PID, harnesses, 900 if tier == "quick" else 9000, jobs=4, seed=seed)
    res = out["results"]
    violations, known_lines, undecided = [], [], list(out["undecided"]) if tier == "quick" else [u for u in out["undecided"]]
    for role, path, text in out["violations"]:
        if role["harness"].startswith("c08_") and "panic" not in text:
            continue      # a wrong (but returned) date is C08's subject, not an abort
        r2 = {"site": "DateRoll::add_days" if "add_days" in role["harness"] else role["harness"], "input_class": "days = i8::MIN" if role.get("days") == -128 else str(role.get("days"))}
        k = C.match_known(PID, r2)
        if k:
            known_lines.append(f"KNOWN-FINDING: property={PID} {k['what']}")
        else:
            violations.append(path)
            print("counterexample (K):", text[:300])
    obs = m_obligations(tier)
    results = run_pool(obs, m_worker, seed=seed)
    tot = summarize(results)
    n = 1000
    for f in tot["fails"]:
        n += 1
        if f.get("reproduced"):
            path = C.save_replay(PID, n, f)
            k = C.match_known(PID, role_of_m(f))
            if k:
                known_lines.append(f"KNOWN-FINDING: property={PID} {k['what']}")
            else:
                violations.append(path)
                print("counterexample (M):", f["ob"], role_of_m(f), "::", (f.get("panic") or "")[:100], "; ".join(f.get("mismatch", []))[:300])
        elif "replay_error" in f or f.get("native") is not None:
            C.save_replay(PID, f"nonrepro-{n}", f)
            undecided.append(f"ENCODING-MISMATCH {f['ob']}: panic leaf does not reproduce natively ({f.get('panic')}; {f.get('replay_error', '')[-200:]})")
        else:
            path = C.save_replay(PID, n, f)
            violations.append(path)
            print("counterexample (M):", f["ob"], f.get("desc"))
    undecided += tot["undecided"]
    for u in tot["unknown"]:
        undecided.append("solver unknown: " + u[:160])
    if tot["panics"]:
        undecided.append(f"unclassified panic leaves: {tot['panics'][:3]}")
    okh = [h for h in harnesses if res[h]["status"] == "success"]
    ev.cov(engine="Kani/CBMC (date arithmetic on real chrono) + mirsym/z3 (panic reachability of the crate's own code)",
           kani_harnesses=[{"harness": h, "status": res[h]["status"], "checks": res[h].get("checks"), "solver_s": res[h].get("solver_s"), "inputs": out["schema"][h]} for h in harnesses],
           functions_encoded=sorted(tot["fns"]), library_models=sorted(tot["models"]),
           bounds={"K": "add_days (quick) + add_bus_days, lag, add_months, get_roll (thorough): EVERY i8 day count / month offset in range, 6 anchor dates, all modifiers, all-business calendar",
                   "M": "add_days/add_bus_days/lag: every i8 count on an every-day-eligible calendar and n in -2..2 on arbitrary calendars with gap<=2; roll: 5 modifiers gap<=3; Dual/Dual2::try_new: |vars| 0..3 (duplicates allowed), |dual| 0..4, |dual2| 0..10; Ccy/FXPair/Cal::new: enumerated strings and week masks; load-time reconstruction (the conversion serde calls after parsing): NamedCal documents with 8 saved names (valid, unknown, empty, two pipes, trailing comma, upper case), FXRates documents for EVERY quote-list structure with 1..2 quotes (trees and non-trees) x currency list as saved / empty / one missing / reversed / with an unknown extra, symbolic rates",
                   "outside": "the JSON TEXT level (serde_json parser and derive visitors are not encoded - see DESIGN §3.20, §4): altered documents are represented by the data-model value the parser hands to the crate's conversion, which covers altered/deleted/duplicated VALUES of well-typed fields but not type-level damage (a missing field, a string where a number is expected), which serde rejects before any crate code runs; FXRates/NamedCal/PPSpline constructors are exercised under C09/C06/C15"},
           obligations=len(harnesses) + len(obs), discharged=len(okh) + sum(1 for r in results if r and not r.get("error") and not r.get("fails") and not r.get("undecided")),
           evaluations=sum(r.get("checks", 0) or 0 for r in res.values()) + tot["checks"] + tot["paths"], distinct_nontrivial=len(okh) + tot["paths"],
           rule="K: one obligation per harness (all inputs symbolic, any failed CBMC check = reachable abort). M: obligation = (function, input sizes); every explored path must end in Ok/Err (shape invariant checked on Ok), a Panic leaf inside the documented input range is a violation after native replay",
           samples=[{"obligation": r["ob"], "paths": r.get("paths"), "leaf_kinds": r.get("leaf_kinds")} for r in results[:: max(1, len(results) // 10)] if r],
           queries={"feasibility": tot["feas_checks"], "validity": tot["checks"]}, solver_time_s=round(tot["solver_s"] + sum(r.get("solver_s", 0) or 0 for r in res.values()), 2))
    ev.assume("Kani stubs: PyErr::new -> zeroed token, catch_unwind -> direct call", "mirsym library models; model calendar predicates arbitrary", "JSON documents are modelled at the data-model level (what serde hands to the crate after parsing); the parser and derive visitors themselves are outside the claim (partial property)")
    C.finish(ev, violations, undecided[:30], sorted(set(known_lines)))


def replay(path):
    obj = json.load(open(path))
    if obj.get("engine") == "kani":
        return kspec.replay_file(path)
    print(json.dumps(obj.get("native"), indent=1)[:2000])
    return 1 if obj.get("reproduced") else 0
