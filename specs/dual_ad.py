"""C01 / C02: every operator impl of Dual (order 1) / Dual2 (order 2) found in the MIR, executed symbolically on
operands with symbolic variable NAMES and symbolic real contents, against the calculus rules stated per name."""
import z3, time
from fractions import Fraction
from vlib import common as C
from specs.dual_common import *
from mirsym.models import fpow, fsqrt

TY = {1: "Dual", 2: "Dual2"}


def enum_impls(P, order):
    """operator impl bodies for the given order, straight from the dump"""
    T_ = TY[order]
    out = []
    def base(t):
        return deref_ty(t)
    for name in ("add", "sub", "mul", "div"):
        for f in P.by_name.get(name, []):
            if f.kind != "fn" or f.is_closure or len(f.params) != 2:
                continue
            b0, b1 = base(f.params[0][1]), base(f.params[1][1])
            ns = {b0.name, b1.name}
            if T_ in ns and ns <= {T_, "f64"} and f.ret.name == T_:
                out.append(("bin", name, f))
    for f in P.by_name.get("neg", []):
        if f.kind == "fn" and not f.is_closure and len(f.params) == 1 and base(f.params[0][1]).name == T_:
            out.append(("un", "neg", f))
    for f in P.by_name.get("pow", []):
        if f.kind == "fn" and not f.is_closure and len(f.params) == 2 and base(f.params[0][1]).name == T_ and base(f.params[1][1]).name == "f64":
            out.append(("un", "pow", f))
    for nm in ("exp", "log", "norm_cdf", "inv_norm_cdf", "abs"):
        for f in P.by_name.get(nm, []):
            if f.kind == "fn" and not f.is_closure and len(f.params) == 1 and base(f.params[0][1]).name == T_ and f.ret.name == T_:
                out.append(("un", nm, f))
    return out


def sig(f):
    return f"{f.name}({', '.join(show(t) for _, t in f.params)}) -> {show(f.ret)}"


def obligations(order, L, tier):
    P, S = get_world()
    obs = []
    for kind, op, f in enum_impls(P, order):
        if kind == "bin":
            b0, b1 = deref_ty(f.params[0][1]).name, deref_ty(f.params[1][1]).name
            if b0 != "f64" and b1 != "f64":
                for la in range(L + 1):
                    for lb in range(L + 1):
                        obs.append(dict(id=f"{sig(f)} |a|={la} |b|={lb}", fn=f.index, kind=kind, op=op, la=la, lb=lb, share=False, order=order))
                    if la > 0:
                        obs.append(dict(id=f"{sig(f)} |a|=|b|={la} shared Arc", fn=f.index, kind=kind, op=op, la=la, lb=la, share=True, order=order))
            else:
                for la in range(L + 1):
                    obs.append(dict(id=f"{sig(f)} |d|={la}", fn=f.index, kind=kind, op=op, la=la, lb=la, share=False, order=order))
        else:
            pows = [None]
            if op == "pow":
                pows = ["sym", 2, 3, -1, Fraction(1, 2)] if tier == "thorough" else ["sym", 2, -1]
            for pw in pows:
                for la in range(L + 1):
                    obs.append(dict(id=f"{sig(f)} |a|={la}" + (f" p={pw}" if pw is not None else ""), fn=f.index, kind=kind, op=op, la=la,
                                    order=order, p=str(pw) if pw is not None else None))
    return obs


def wrap_arg(m, v, pty):
    return m.temp_ref(v) if pty.k == "ref" else v


# ---------------------------------------------------------------- oracle: first & second order rules as exact fractions
def Fz(e):
    return F(e)


def bin_rule(op, a, b):
    """partials of f(a,b): f, fa, fb, faa, fab, fbb  (F values; a, b are F)"""
    one, zero = F(1), F(0)
    A, Sb, Mu, Dv = (lambda x, y: fr_bin("add", x, y)), (lambda x, y: fr_bin("sub", x, y)), (lambda x, y: fr_bin("mul", x, y)), (lambda x, y: fr_bin("div", x, y))
    if op == "add":
        return dict(f=A(a, b), fa=one, fb=one, faa=zero, fab=zero, fbb=zero)
    if op == "sub":
        return dict(f=Sb(a, b), fa=one, fb=F(-1), faa=zero, fab=zero, fbb=zero)
    if op == "mul":
        return dict(f=Mu(a, b), fa=b, fb=a, faa=zero, fab=one, fbb=zero)
    if op == "div":
        b2 = Mu(b, b)
        return dict(f=Dv(a, b), fa=Dv(one, b), fb=Dv(f_neg(a), b2), faa=zero, fab=Dv(F(-1), b2), fbb=Dv(Mu(F(2), a), Mu(b2, b)))
    raise ValueError(op)


def lin(*terms):
    """sum of products of F values"""
    acc = F(0)
    for t in terms:
        p = F(1)
        for x in t:
            p = fr_bin("mul", p, x)
        acc = fr_bin("add", acc, p)
    return acc


def worker(ob):
    if ob.get("kind") == "trees":
        from specs import dual_trees
        return dual_trees.tree_worker(ob)
    if ob.get("kind") == "readback":
        from specs import C17
        return C17.worker(ob)
    P, S = get_world()
    fn = P.functions[ob["fn"]]
    order = ob["order"]
    T_ = TY[order]

    def harness(m):
        m.div_mode = "frac"
        inputs = []
        chk = Check(m)
        if ob["kind"] == "bin":
            t0, t1 = fn.params[0][1], fn.params[1][1]
            b0, b1 = deref_ty(t0).name, deref_ty(t1).name
            ops = []
            prev_names = None
            for side, bn, ln in (("a", b0, ob["la"]), ("b", b1, ob["lb"])):
                if bn == "f64":
                    x = z3.Real(side + "_f")
                    ops.append(("f", F(x), x, None))
                else:
                    if side == "b" and ob["share"]:
                        d = mk_dual(m, S, "b", prev_names, order, arc=parts(S, ops[0][1])["vars"], inputs=inputs)
                        ops.append(("d", d, None, prev_names))
                    else:
                        nm = mk_names(m, side, ln)
                        prev_names = nm
                        d = mk_dual(m, S, side, nm, order, inputs=inputs)
                        ops.append(("d", d, None, nm))
            def real_of(o):
                return F(o[2]) if o[0] == "f" else parts(S, o[1])["real"]
            ar, br = real_of(ops[0]), real_of(ops[1])
            if ob["op"] == "div":
                m.assume(br.z() != 0)
            args = [wrap_arg(m, ops[0][1], t0), wrap_arg(m, ops[1][1], t1)]
            res = m.run_function(fn, args, {})
            rule = bin_rule(ob["op"], ar, br)
            allnames = []
            for o in ops:
                if o[0] == "d":
                    allnames += [a.id for a in o[3]]
            def c1(o, v):
                return F(0) if o[0] == "f" else coef1(S, o[1], v)
            def c2(o, v, w):
                return F(0) if o[0] == "f" else coef2(S, o[1], v, w)
            props = []
            rp = parts(S, res)
            props.append(("shape", shape_ok(S, res)))
            props.append(("vars=union", union_exact(S, res, [[a.id for a in o[3]] for o in ops if o[0] == "d"])))
            props.append(("no division by zero inside the domain", z3.And(*m.div_guards) if m.div_guards else True))
            props.append(("real", fr_eq(rp["real"], rule["f"])))
            exp1, exp2 = {}, {}
            for v in allnames:
                e = lin((rule["fa"], c1(ops[0], v)), (rule["fb"], c1(ops[1], v)))
                exp1[str(v)] = e
                props.append((f"d/d[{v}]", fr_eq(coef1(S, res, v), e)))
            if order == 2:
                for v in allnames:
                    for w in allnames:
                        ga_v, ga_w, gb_v, gb_w = c1(ops[0], v), c1(ops[0], w), c1(ops[1], v), c1(ops[1], w)
                        e = lin((rule["fa"], c2(ops[0], v, w)), (rule["fb"], c2(ops[1], v, w)), (rule["faa"], ga_v, ga_w),
                                (rule["fab"], ga_v, gb_w), (rule["fab"], gb_v, ga_w), (rule["fbb"], gb_v, gb_w))
                        exp2[(str(v), str(w))] = e
                        props.append((f"d2/d[{v}]d[{w}]", fr_eq(coef2(S, res, v, w), e)))
                        props.append((f"hessian symmetric [{v}][{w}]", fr_eq(coef2(S, res, v, w), coef2(S, res, w, v))))
            sc_base = {"kind": "dual_binop", "ty": T_, "op": ob["op"], "ref_a": t0.k == "ref", "ref_b": t1.k == "ref", "share": ob["share"]}
            extra = [o[2] for o in ops if o[0] == "f"]

            def replay(model):
                env = input_env(model, inputs, extra)
                it = iter(inputs)
                sc = dict(sc_base)
                for side, o in zip("ab", ops):
                    sc[side] = {"f64": env[str(o[2])]} if o[0] == "f" else rec_json(next(it), env)
                return replay_compare(sc, env, rule["f"], exp1, exp2, order)
            add_all(chk, props, replay)
        else:
            t0 = fn.params[0][1]
            nm = mk_names(m, "a", ob["la"])
            a = mk_dual(m, S, "a", nm, order, inputs=inputs)
            xF = parts(S, a)["real"]
            x = xF.z()
            args = [wrap_arg(m, a, t0)]
            op = ob["op"]
            one = F(1)
            Mu, Dv = (lambda p, q: fr_bin("mul", p, q)), (lambda p, q: fr_bin("div", p, q))
            pexpr = None
            if op == "pow":
                pw = ob["p"]
                if pw == "sym":
                    pexpr = z3.Real("p")
                    m.assume(x > 0)
                    pF = F(pexpr)
                else:
                    pF = F(Fraction(pw))
                    pexpr = pF.z()
                    if pF.v < 1 and pF.v.denominator == 1:
                        m.assume(x != 0)
                    if pF.v.denominator != 1:
                        m.assume(x > 0)
                args.append(pF)
                pm1 = F(pF.z() - 1) if is_sym(pF.v) else F(pF.v - 1)
                pm2 = F(pF.z() - 2) if is_sym(pF.v) else F(pF.v - 2)
                f0 = fpow(m, xF, pF)
                f1 = Mu(pF, fpow(m, xF, pm1))
                f2 = Mu(Mu(pF, pm1), fpow(m, xF, pm2))
            elif op == "neg":
                f0, f1, f2 = f_neg(xF), F(-1), F(0)
            elif op == "exp":
                e = F(m.ufun("exp", x))
                f0, f1, f2 = e, e, e
            elif op == "log":
                m.assume(x > 0)
                f0, f1, f2 = F(m.ufun("ln", x)), Dv(one, xF), Dv(F(-1), Mu(xF, xF))
            elif op == "norm_cdf":
                s = fsqrt(m, F(2 * m.pi()))
                pdf = F(m.ufun("exp", -(x * x) / 2))
                f0, f1, f2 = F(m.ufun("Phi", x)), Dv(pdf, s), Dv(Mu(f_neg(xF), pdf), s)
            elif op == "inv_norm_cdf":
                m.assume(x > 0); m.assume(x < 1)
                z = m.ufun("PhiInv", x)
                s = fsqrt(m, F(2 * m.pi()))
                ez = F(m.ufun("exp", (z * z) / 2))
                f0, f1 = F(z), Mu(s, ez)
                f2 = Mu(Mu(f1, f1), F(z))
            elif op == "abs":
                m.assume(x != 0)
                sg = F(z3.If(x > 0, rv(1), rv(-1)))
                f0, f1, f2 = F(z3.If(x > 0, x, -x)), sg, F(0)
            res = m.run_function(fn, args, {})
            rp = parts(S, res)
            props = [("shape", shape_ok(S, res)), ("vars=union", union_exact(S, res, [[a_.id for a_ in nm]]))]
            props.append(("no division by zero inside the domain", z3.And(*m.div_guards) if m.div_guards else True))
            props.append(("real", fr_eq(rp["real"], f0)))
            exp1, exp2 = {}, {}
            for v in [a_.id for a_ in nm]:
                e = Mu(f1, coef1(S, a, v))
                exp1[str(v)] = e
                props.append((f"d/d[{v}]", fr_eq(coef1(S, res, v), e)))
            if order == 2:
                for v in [a_.id for a_ in nm]:
                    for w in [a_.id for a_ in nm]:
                        e = lin((f1, coef2(S, a, v, w)), (f2, coef1(S, a, v), coef1(S, a, w)))
                        exp2[(str(v), str(w))] = e
                        props.append((f"d2/d[{v}]d[{w}]", fr_eq(coef2(S, res, v, w), e)))
            sc_base = {"kind": "dual_unop", "ty": T_, "op": op, "ref_a": t0.k == "ref"}
            extra = [pexpr] if (pexpr is not None and is_sym(pexpr) and not z3.is_rational_value(pexpr)) else []

            def replay(model):
                env = input_env(model, inputs, extra)
                sc = dict(sc_base)
                sc["a"] = rec_json(inputs[0], env)
                if pexpr is not None:
                    sc["p"] = zeval(pexpr, env)
                return replay_compare(sc, env, f0, exp1, exp2, order)
            add_all(chk, props, replay)
        return chk

    r = explore_ob(harness, max_paths=3000, max_seconds=1200)
    return r


def add_all(chk, props, replay):
    """one conjunction per path; on failure the failing conjuncts are identified inside replay bookkeeping"""
    conj = True
    pyfail = [d for d, p in props if p is False]
    zs = [p for d, p in props if is_sym(p)]
    if pyfail:
        chk.add("; ".join(pyfail), False, replay)
        return
    chk.add("all clauses (" + ", ".join(d for d, _ in props) + ")", z3.And(*zs) if zs else True, replay)


def fval(e, env):
    n, d = e.pair()
    return zeval(n, env) / zeval(d, env)


def replay_compare(sc, env, f0, exp1, exp2, order):
    """run the scenario natively (dev + release) and compare with the oracle evaluated in floating point"""
    out = {"scenario": sc, "reproduced": False, "native": {}, "mismatch": []}
    for prof in ("dev", "release"):
        obs = native_run([sc], prof)[0]
        out["native"][prof] = obs
        if obs.get("panic"):
            out["reproduced"] = True
            out["mismatch"].append(f"{prof}: panic {obs.get('msg','')}")
            continue
        if "error" in obs:
            out["mismatch"].append(f"{prof}: replay error {obs['error']}")
            continue
        try:
            want = fval(f0, env)
            if not close(obs["real"], want):
                out["mismatch"].append(f"{prof}: real native={obs['real']} oracle={want}")
            names = sorted({int(env[k]) for k in env if "_n" in k})
            for v, e in exp1.items():
                vv = int(env[v]) if v in env else int(v)
                want = fval(e, env)
                got = native_coef1(obs, vv)
                if not close(got, want):
                    out["mismatch"].append(f"{prof}: d/d v{vv} native={got} oracle={want}")
            if order == 2:
                for (v, w), e in exp2.items():
                    vv, ww = (int(env[v]) if v in env else int(v)), (int(env[w]) if w in env else int(w))
                    want = fval(e, env)
                    got = native_coef2(obs, vv, ww)
                    if not close(got, want):
                        out["mismatch"].append(f"{prof}: d2/d v{vv} d v{ww} native={got} oracle={want}")
            nv = len(obs["vars"])
            if len(obs["dual"]) != nv or (order == 2 and len(obs.get("dual2", [])) != nv * nv):
                out["mismatch"].append(f"{prof}: shape |vars|={nv} |dual|={len(obs['dual'])}")
            if len(set(obs["vars"])) != nv:
                out["mismatch"].append(f"{prof}: duplicate variable names {obs['vars']}")
        except (ZeroDivisionError, OverflowError, ValueError) as e:
            out["mismatch"].append(f"{prof}: oracle not evaluable in floats ({e})")
    out["reproduced"] = any(not x.endswith(")") or "panic" in x for x in out["mismatch"]) and any("native=" in x or "panic" in x or "shape" in x or "duplicate" in x for x in out["mismatch"])
    return out


def run(pid, order, tier, seed, design_ref):
    ev = C.Evidence(pid, tier, seed, "model_checking")
    L = 2 if tier == "quick" else 3
    if order == 2 and tier == "thorough":
        L = 3
    obs = obligations(order, L, tier)
    if order == 2:
        # "a Hessian, read back per variable pair": the read-back functions of Dual2 (obligations shared with C17)
        from specs import C17
        for o in C17.obligations(L, tier):
            if o["order"] == 2 and o["which"] in ("gradient1", "gradient2"):
                o = dict(o); o["kind"] = "readback"; o["id"] = "read-back " + o["id"]
                obs.append(o)
    from specs import dual_trees
    tobs, ntrees = dual_trees.tree_obligations(order, tier, seed)
    obs += tobs
    results = run_pool(obs, worker, seed=seed)
    tot = summarize(results)
    for f in tot["fails"]:
        if f.get("sub"):
            f["ob"] = "tree " + f["sub"]
    violations, known_lines, undecided = [], [], list(tot["undecided"])
    n = 0
    for f in tot["fails"]:
        n += 1
        if f.get("reproduced"):
            role = {"site": f["ob"].split(" |")[0]}
            if f["ob"].startswith("read-back"):
                from specs import C17
                role = C17.role_of(f)
            k = C.match_known(pid, role)
            path = C.save_replay(pid, n, f)
            if k:
                known_lines.append(f"KNOWN-FINDING: property={pid} {k['what']}")
            else:
                violations.append(path)
                print("counterexample:", f["ob"], "::", "; ".join(f.get("mismatch", []))[:400])
        else:
            C.save_replay(pid, f"nonrepro-{n}", f)
            undecided.append(f"ENCODING-MISMATCH {f['ob']}: solver counterexample does not reproduce natively ({f.get('desc','')[:80]}; {f.get('mismatch') or f.get('replay_error')})")
    for u in tot["unknown"]:
        undecided.append("solver unknown: " + u[:200])
    impls = sorted({o["id"].split(" |")[0] for o in obs if o.get("kind") not in ("readback", "trees")})
    ev.cov(
        engine="mirsym (symbolic execution of rustc MIR regenerated from /repo) + z3 " + z3.get_version_string(),
        functions_encoded=sorted(tot["fns"]), operator_impls=impls, library_models=sorted(tot["models"]), axioms=sorted(tot["axioms"]),
        bounds={"vars_per_operand": f"0..{L}", "names": "symbolic atoms (all overlaps / orders / aliasing decided by the solver)",
                "values": "symbolic reals restricted to the differentiable domain of the operator", "shared_arc": "both shared and separate variable lists",
                "trees": f"{ntrees} expression trees over + - * / neg exp log pow(2) pow(p) with leaves x, y (tagged) and a float constant: every tree of depth <= 2{'' if tier == 'quick' else ' and every 8th tree of depth 3 (offset by VERIF_SEED)'}, compared with an independent second-order jet arithmetic",
                "outside": "IEEE rounding/NaN/inf (decided over the reals); more than %d variables per operand; trees deeper than one operator (covered by the chain-rule induction argument, DESIGN §3.1)" % L},
        obligations=len(obs), discharged=sum(1 for r in results if r and not r.get("error") and not r.get("fails") and not r.get("unknown") and not r.get("undecided")),
        evaluations=tot["checks"], distinct_nontrivial=tot["paths"],
        rule="obligation = (operator impl body from the MIR, operand list lengths, shared/separate Arc); each obligation is explored into paths "
             "(distinct feasible branch decisions over symbolic names/values); evaluations = solver validity queries (one conjunction of all clauses per path); "
             "distinct_nontrivial = number of distinct feasible paths, each with at least one non-trivially-true clause",
        samples=[{"obligation": r["ob"], "paths": r.get("paths"), "checks": r.get("checks"), "holds": r.get("holds"), "leaf_kinds": r.get("leaf_kinds"), "wall_s": r.get("wall_s")} for r in results[:: max(1, len(results) // 12)] if r],
        queries={"validity": tot["checks"], "valid": tot["holds"], "feasibility": tot["feas_checks"], "unknown": len(tot["unknown"])},
        solver_time_s=round(tot["solver_s"], 2), panics=tot["panics"][:20],
    )
    ev.assume("f64 arithmetic interpreted over the reals (rounding, NaN, inf, signed zero outside the claim)",
              "library models of mirsym (Vec/IndexSet/ndarray/iterators/Arc) are faithful; validated by native replay of every counterexample",
              "transcendentals are uninterpreted functions with the listed axioms")
    if tot["panics"]:
        undecided.append(f"{len(tot['panics'])} panic leaves inside the differentiable domain: {tot['panics'][:3]}")
    C.finish(ev, violations, undecided[:30], sorted(set(known_lines)))
