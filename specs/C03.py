"""C03 — derivatives are tracked by variable NAME whatever the layout (engine M).
For every binary operator (&T op &T for + - * %) and == on Dual and Dual2: a re-layout a' of operand a (other order,
extra zero-derivative names, dropped zero-derivative names, Arc shared with b or not) gives a name-equivalent result;
a' == a; and (a == b) <=> values equal and every per-name derivative equal (missing name == zero derivative)."""
import z3, json
from vlib import common as C
from specs.dual_common import *

PID = "C03"
TY = {1: "Dual", 2: "Dual2"}


def find_fn(P, name, T_, ret=None):
    out = []
    for f in P.by_name.get(name, []):
        if f.kind != "fn" or f.is_closure or len(f.params) != 2:
            continue
        t0, t1 = f.params[0][1], f.params[1][1]
        if t0.k == "ref" and t1.k == "ref" and t0.args[0].name == T_ and t1.args[0].name == T_:
            out.append(f)
    return out


def obligations(L, tier):
    P, S = get_world()
    obs = []
    for order in (1, 2):
        T_ = TY[order]
        for op in ("add", "sub", "mul", "rem", "eq"):
            fs = find_fn(P, op, T_)
            if len(fs) != 1:
                obs.append(dict(id=f"{T_} {op}: expected one (&{T_},&{T_}) impl, found {len(fs)}", bad=True))
                continue
            LL = L if order == 1 else min(L, 2)
            for la in range(LL + 1):
                for lap in range(LL + 1):
                    for lb in range(LL + 1):
                        obs.append(dict(id=f"{T_} {op} |a|={la} |a'|={lap} |b|={lb}", fn=fs[0].index, op=op, order=order, la=la, lap=lap, lb=lb, share=False))
                    if lap > 0:
                        obs.append(dict(id=f"{T_} {op} |a|={la} a' shares b's Arc |b|={lap}", fn=fs[0].index, op=op, order=order, la=la, lap=lap, lb=lap, share=True))
    # the shared re-layout helper itself, with longer lists than the operator obligations can afford
    H = 5 if tier == "quick" else 6
    for order in (1, 2):
        for n in range(H + 1):
            for k in range(H + 1):
                if order == 2 and max(n, k) > H - 1:
                    continue
                obs.append(dict(id=f"{TY[order]} to_new_vars |self|={n} |target|={k}", kind="helper", order=order, n=n, k=k))
    return obs


def helper_worker(ob):
    P, S = get_world()
    order = ob["order"]
    T_ = TY[order]

    def harness(m):
        inputs = []
        na = mk_names(m, "a", ob["n"])
        a = mk_dual(m, S, "a", na, order, inputs=inputs)
        nt = mk_names(m, "t", ob["k"])
        arc = m.new_arc(SetV(nt))
        r = m.call_text(f"<{T_} as Vars>::to_new_vars", [m.temp_ref(a), m.temp_ref(arc), NONE],
                        [parse_type("&" + T_), parse_type("&Arc<IndexSet<String>>"), parse_type("Option<VarsRelationship>")], parse_type(T_))
        chk = Check(m)
        props = [("shape", shape_ok(S, r)), ("value kept", fr_eq(parts(S, r)["real"], parts(S, a)["real"])),
                 ("the result carries exactly the target list", len(names_of(S, r)) == len(nt) and z3.And(*[iz(x) == iz(y.id) for x, y in zip(names_of(S, r), nt)]))]
        tv = [x.id for x in nt]
        for v in tv:
            props.append((f"d/d{v} kept by name", fr_eq(coef1(S, r, v), coef1(S, a, v))))
        if order == 2:
            for v in tv:
                for w in tv:
                    props.append((f"d2/d{v}d{w} kept by name", fr_eq(coef2(S, r, v, w), coef2(S, a, v, w))))

        def replay(model):
            env = input_env(model, inputs)
            ja = rec_json(inputs[0], env)
            tgt = [int(mval(model, iz(x.id))) for x in nt]
            sc = {"kind": "dual_to_new_vars", "ty": T_, "a": ja, "target": tgt}
            out = {"scenario": sc, "mismatch": [], "reproduced": False, "native": {}}
            for prof in ("dev", "release"):
                o = native_run([sc], prof)[0]
                out["native"][prof] = o
                if o.get("panic"):
                    out["mismatch"].append(f"{prof}: panic"); continue
                if o["vars"] != [f"v{t}" for t in tgt]:
                    out["mismatch"].append(f"{prof}: native vars {o['vars']} target {tgt}")
                for t in tgt:
                    if not close(obs_c1(o, f"v{t}"), nc1(ja, t)):
                        out["mismatch"].append(f"{prof}: d/dv{t} native={obs_c1(o, f'v{t}')} input={nc1(ja, t)}")
                if order == 2:
                    for t in tgt:
                        for u in tgt:
                            if not close(obs_c2(o, f"v{t}", f"v{u}"), nc2(ja, t, u)):
                                out["mismatch"].append(f"{prof}: d2/dv{t}dv{u} native={obs_c2(o, f'v{t}', f'v{u}')} input={nc2(ja, t, u)}")
            out["reproduced"] = any("native" in x or "panic" in x for x in out["mismatch"])
            return out
        zs = [p for d, p in props if is_sym(p)]
        pyfail = [d for d, p in props if p is False]
        if pyfail:
            chk.add("; ".join(pyfail), False, replay)
        else:
            chk.add("all clauses (" + "; ".join(d for d, _ in props)[:300] + ")", z3.And(*zs) if zs else True, replay)
        return chk

    return explore_ob(harness, max_paths=20000, max_seconds=1500)


def same_by_name(S, x, y, names, order):
    c = fr_eq(parts(S, x)["real"], parts(S, y)["real"])
    for v in names:
        c = z3.And(c, fr_eq(coef1(S, x, v), coef1(S, y, v)))
    if order == 2:
        for v in names:
            for w in names:
                c = z3.And(c, fr_eq(coef2(S, x, v, w), coef2(S, y, v, w)))
    return c


def worker(ob):
    if ob.get("bad"):
        return {"undecided": [ob["id"]]}
    if ob.get("kind") == "helper":
        return helper_worker(ob)
    P, S = get_world()
    fn = P.functions[ob["fn"]]
    order = ob["order"]
    T_ = TY[order]
    eqfn = find_fn(P, "eq", T_)[0]

    def harness(m):
        m.div_mode = "frac"
        inputs = []
        na = mk_names(m, "a", ob["la"])
        a = mk_dual(m, S, "a", na, order, inputs=inputs)
        nb = mk_names(m, "b", ob["lb"])
        b = mk_dual(m, S, "b", nb, order, inputs=inputs)
        if ob["share"]:
            nap = nb
            ap = mk_dual(m, S, "c", nb, order, arc=parts(S, b)["vars"], inputs=inputs)
        else:
            nap = mk_names(m, "c", ob["lap"])
            ap = mk_dual(m, S, "c", nap, order, inputs=inputs)
        allv = [x.id for x in na] + [x.id for x in nap] + [x.id for x in nb]
        # a' is a re-layout of a: same value, same derivative for every NAME
        m.assume(same_by_name(S, a, ap, [x.id for x in na] + [x.id for x in nap], order))
        if ob["op"] == "rem":
            m.assume(parts(S, b)["real"].z() != 0)
        import mirsym.sym as _sym
        del _sym.TAINTED_EQ[:]
        r1 = m.run_function(fn, [m.temp_ref(a), m.temp_ref(b)], {})
        r2 = m.run_function(fn, [m.temp_ref(ap), m.temp_ref(b)], {})
        chk = Check(m)
        props = []
        if ob["op"] == "eq":
            props.append(("a'==b  <=>  a==b", b_eq(r1, r2)))
            props.append(("(a==b) <=> equal value and equal derivative per name", b_eq(r1, same_by_name(S, a, b, allv, order))))
            r3 = m.run_function(eqfn, [m.temp_ref(ap), m.temp_ref(a)], {})
            r4 = m.run_function(eqfn, [m.temp_ref(a), m.temp_ref(ap)], {})
            props.append(("a' == a", b_eq(r3, True)))
            props.append(("a == a'", b_eq(r4, True)))
            tainted_eq = len(_sym.TAINTED_EQ)
        else:
            props.append(("shape", shape_ok(S, r1) and shape_ok(S, r2)))
            props.append(("vars(op(a,b)) = union", union_exact(S, r1, [[x.id for x in na], [x.id for x in nb]])))
            props.append(("vars(op(a',b)) = union", union_exact(S, r2, [[x.id for x in nap], [x.id for x in nb]])))
            props.append(("op(a',b) name-equivalent to op(a,b)", same_by_name(S, r1, r2, allv, order)))
            r5 = m.run_function(eqfn, [m.temp_ref(r1), m.temp_ref(r2)], {})
            props.append(("op(a',b) == op(a,b) by the crate's own ==", b_eq(r5, True)))

        def replay(model):
            env = input_env(model, inputs)
            ja, jb, jc = (rec_json(r, env) for r in inputs)
            out = {"inputs": {"a": ja, "b": jb, "a_relayout": jc, "share": ob["share"]}, "mismatch": [], "reproduced": False, "native": {}}
            for prof in ("dev", "release"):
                if ob["op"] == "eq":
                    scs = [{"kind": "dual_eq", "ty": T_, "a": ja, "b": jb}, {"kind": "dual_eq", "ty": T_, "a": jb, "b": jc, "share": ob["share"]},
                           {"kind": "dual_eq", "ty": T_, "a": jc, "b": ja}, {"kind": "dual_eq", "ty": T_, "a": ja, "b": jc}]
                    o = native_run(scs, prof)
                    out["native"][prof] = o
                    if any(x.get("panic") for x in o):
                        out["mismatch"].append(f"{prof}: panic"); continue
                    want = close(ja["real"], jb["real"]) and all(close(nc1(ja, v), nc1(jb, v)) for v in set(ja["vars"]) | set(jb["vars"]))
                    if order == 2:
                        vs = set(ja["vars"]) | set(jb["vars"])
                        want = want and all(close(nc2(ja, v, w), nc2(jb, v, w)) for v in vs for w in vs)
                    if o[0]["eq"] != want:
                        out["mismatch"].append(f"{prof}: a==b native={o[0]['eq']} by-name={want}")
                    if o[1]["eq"] != o[0]["eq"]:
                        out["mismatch"].append(f"{prof}: b==a' native={o[1]['eq']} but a==b native={o[0]['eq']}")
                    if not o[2]["eq"] or not o[3]["eq"]:
                        out["mismatch"].append(f"{prof}: a'==a native={o[2]['eq']}, a==a' native={o[3]['eq']}")
                else:
                    scs = [{"kind": "dual_binop", "ty": T_, "op": ob["op"], "a": ja, "b": jb},
                           {"kind": "dual_binop", "ty": T_, "op": ob["op"], "a": jb, "b": jc, "share": ob["share"], "swap": True}]
                    # second scenario: b is built first so that a' can share b's Arc; operands are swapped back below
                    o1 = native_run([scs[0]], prof)[0]
                    o2 = native_run([{"kind": "dual_binop_swapped", "ty": T_, "op": ob["op"], "a": jc, "b": jb, "share": ob["share"]}], prof)[0]
                    out["native"][prof] = [o1, o2]
                    if o1.get("panic") or o2.get("panic"):
                        out["mismatch"].append(f"{prof}: panic"); continue
                    if "error" in o2:
                        out["mismatch"].append(f"{prof}: replay error {o2['error']}"); continue
                    vs = {f"v{v}" for v in ja["vars"] + jb["vars"] + jc["vars"]}
                    if not close(o1["real"], o2["real"]):
                        out["mismatch"].append(f"{prof}: real {o1['real']} vs {o2['real']}")
                    for v in sorted(vs):
                        x, y = obs_c1(o1, v), obs_c1(o2, v)
                        if not close(x, y):
                            out["mismatch"].append(f"{prof}: d/d{v} op(a,b)={x} op(a',b)={y}")
                    if order == 2:
                        for v in sorted(vs):
                            for w in sorted(vs):
                                x, y = obs_c2(o1, v, w), obs_c2(o2, v, w)
                                if not close(x, y):
                                    out["mismatch"].append(f"{prof}: d2/d{v}d{w} op(a,b)={x} op(a',b)={y}")
                    for o in (o1, o2):
                        if len(set(o["vars"])) != len(o["vars"]) or len(o["dual"]) != len(o["vars"]):
                            out["mismatch"].append(f"{prof}: malformed result {o['vars']} |dual|={len(o['dual'])}")
            out["reproduced"] = any(("native" in x or "op(a" in x or "panic" in x or "malformed" in x or "real " in x) for x in out["mismatch"])
            return out
        zs = [p for d, p in props if is_sym(p)]
        pyfail = [d for d, p in props if p is False]
        if pyfail:
            chk.add("; ".join(pyfail), False, replay)
        else:
            chk.add("all clauses (" + "; ".join(d for d, _ in props) + ")", z3.And(*zs) if zs else True, replay)
        if ob["op"] == "eq":
            def pool_replay(model):
                # the same number in two layouts whose derivative sums round differently when taken in listing order
                out = {"scenario": None, "mismatch": [], "native": {}, "reproduced": False}
                for vals in ((0.1, 0.2, 0.3), (0.1, 0.7, 1e16), (1e-3, 3.3, 0.7)):
                    for perm in ((2, 1, 0), (1, 2, 0), (0, 2, 1)):
                        ja = {"real": 1.5, "vars": [0, 1, 2], "dual": list(vals)}
                        jb = {"real": 1.5, "vars": [perm[0], perm[1], perm[2]], "dual": [vals[perm[0]], vals[perm[1]], vals[perm[2]]]}
                        if order == 2:
                            ja["dual2"] = [0.0] * 9; jb["dual2"] = [0.0] * 9
                        sc = {"kind": "dual_eq", "ty": T_, "a": ja, "b": jb}
                        for prof in ("dev", "release"):
                            o = native_run([sc], prof)[0]
                            if o.get("eq") is False:
                                out["mismatch"].append(f"{prof}: native a == a' is false for the same number listed as {ja['vars']} {ja['dual']} and {jb['vars']} {jb['dual']}")
                                out["scenario"] = sc; out["native"][prof] = o
                        if out["mismatch"]:
                            out["reproduced"] = True
                            return out
                return out
            chk.add_soft("== is decided on stored values only (no comparison of re-associated floating-point sums)", tainted_eq == 0, pool_replay)
        return chk

    return explore_ob(harness, max_paths=6000, max_seconds=1500)


def nc1(j, v):
    for n_, x in zip(j["vars"], j["dual"]):
        if n_ == v:
            return x
    return 0.0


def nc2(j, v, w):
    n = len(j["vars"])
    for i in range(n):
        for k in range(n):
            if j["vars"][i] == v and j["vars"][k] == w:
                return 2 * j["dual2"][i * n + k]
    return 0.0


def obs_c1(o, v):
    for n_, x in zip(o["vars"], o["dual"]):
        if n_ == v:
            return x
    return 0.0


def obs_c2(o, v, w):
    n = len(o["vars"])
    for i in range(n):
        for k in range(n):
            if o["vars"][i] == v and o["vars"][k] == w:
                return 2 * o["dual2"][i * n + k]
    return 0.0


def run(tier, seed):
    ev = C.Evidence(PID, tier, seed, "model_checking")
    L = 2 if tier == "quick" else 3
    obs = obligations(L, tier)
    results = run_pool(obs, worker, seed=seed)
    tot = summarize(results)
    violations, known_lines, undecided = [], [], list(tot["undecided"])
    n = 0
    for f in tot["fails"]:
        n += 1
        if f.get("reproduced"):
            path = C.save_replay(PID, n, f)
            k = C.match_known(PID, {"site": " ".join(f["ob"].split()[:2])})
            if k:
                known_lines.append(f"KNOWN-FINDING: property={PID} {k['what']}")
            else:
                violations.append(path)
                print("counterexample:", f["ob"], "::", "; ".join(f.get("mismatch", []))[:400])
        else:
            C.save_replay(PID, f"nonrepro-{n}", f)
            undecided.append(f"ENCODING-MISMATCH {f['ob']}: counterexample does not reproduce natively ({f.get('mismatch') or f.get('replay_error')})")
    for u in tot["unknown"]:
        undecided.append("solver unknown: " + u[:160])
    if tot["panics"]:
        undecided.append(f"panic leaves: {tot['panics'][:3]}")
    ev.cov(engine="mirsym + z3 " + z3.get_version_string(), functions_encoded=sorted(tot["fns"]), library_models=sorted(tot["models"]),
           bounds={"list_lengths": f"|a|,|a'|,|b| in 0..{L} (Dual), 0..{min(L,2)} (Dual2)", "names": "symbolic atoms; every permutation / subset / superset / overlap / disjoint layout is a solver choice",
                   "arc": "a' separate, or sharing b's variable list",
                   "helper": f"Vars::to_new_vars (the re-layout every operator and == goes through) with |self|,|target| in 0..{5 if tier == 'quick' else 6} (Dual) / one less (Dual2), state=None, all name coincidences", "operators": "+ - * % (the &T op &T bodies all other variants delegate to; the variants themselves are C01/C02/C19 obligations) and ==",
                   "outside": f"lists longer than {L}; '/' (C01/C02)"},
           obligations=len(obs), discharged=sum(1 for r in results if r and not r.get("error") and not r.get("fails") and not r.get("unknown") and not r.get("undecided")),
           evaluations=tot["checks"], distinct_nontrivial=tot["paths"],
           rule="obligation = (type, operator, |a|, |a'|, |b|, sharing); every obligation is explored into feasible paths over the symbolic name equalities; one validity query per path over all clauses",
           samples=[{"obligation": r["ob"], "paths": r.get("paths"), "checks": r.get("checks"), "holds": r.get("holds"), "wall_s": r.get("wall_s")} for r in results[:: max(1, len(results) // 12)] if r],
           queries={"validity": tot["checks"], "valid": tot["holds"], "feasibility": tot["feas_checks"], "unknown": len(tot["unknown"])}, solver_time_s=round(tot["solver_s"], 2))
    ev.assume("reals instead of IEEE floats", "mirsym library models (IndexSet as insertion-ordered duplicate-free list, Arc identity, ndarray)", "re-layout a' constrained only by per-name equality with a")
    C.finish(ev, violations, undecided[:30], sorted(set(known_lines)))


def replay(path):
    obj = json.load(open(path))
    print(json.dumps(obj.get("native"), indent=1)[:3000])
    return 1 if obj.get("reproduced") else 0
