"""C19 — ordering, sign, remainder, sums and identities are coherent with the value (engine M, reals)."""
import z3, json
from fractions import Fraction
from vlib import common as C
from specs.dual_common import *
from specs import dual_ad
from specs.C03 import find_fn
from mirsym.sym import f_trunc

PID = "C19"
TY = {1: "Dual", 2: "Dual2"}


def enum_fns(P, name, allowed):
    out = []
    for f in P.by_name.get(name, []):
        if f.kind != "fn" or f.is_closure or len(f.params) != 2:
            continue
        b = [deref_ty(t).name for _, t in f.params]
        if set(b) <= allowed and (("Dual" in b) != ("Dual2" in b)):
            out.append(f)
    return out


def obligations(L, tier):
    P, S = get_world()
    obs = []
    for f in enum_fns(P, "partial_cmp", {"Dual", "Dual2", "f64"}):
        for la in range(2):
            obs.append(dict(id=f"{dual_ad.sig(f)} |vars|={la}", kind="cmp", fn=f.index, la=la))
    for f in enum_fns(P, "rem", {"Dual", "Dual2", "f64"}):
        b = [deref_ty(t).name for _, t in f.params]
        order = 2 if "Dual2" in b else 1
        LL = L if order == 1 else min(L, 2)
        if "f64" in b:
            for la in range(LL + 1):
                obs.append(dict(id=f"{dual_ad.sig(f)} |d|={la}", kind="rem", fn=f.index, la=la, lb=la, order=order, share=False))
        else:
            for la in range(LL + 1):
                for lb in range(LL + 1):
                    obs.append(dict(id=f"{dual_ad.sig(f)} |a|={la} |b|={lb}", kind="rem", fn=f.index, la=la, lb=lb, order=order, share=False))
                if la:
                    obs.append(dict(id=f"{dual_ad.sig(f)} |a|=|b|={la} shared", kind="rem", fn=f.index, la=la, lb=la, order=order, share=True))
    for order in (1, 2):
        for o in dual_ad.obligations(order, L if order == 1 else min(L, 2), tier):
            if o.get("op") == "abs":
                o["kind2"] = "abs"
                obs.append(o)
        nterms = 4 if tier == "quick" else 5
        for k in range(nterms + 1):
            for ln in (0, 1) if k > 2 else (0, 1, 2):
                if k == 0 and ln:
                    continue
                obs.append(dict(id=f"{TY[order]} sum of {k} terms with {ln} names each", kind="sum", order=order, k=k, ln=ln))
        for la in range((L if order == 1 else min(L, 2)) + 1):
            obs.append(dict(id=f"{TY[order]} zero/one identities |a|={la}", kind="ident", order=order, la=la))
    return obs


def worker(ob):
    if ob.get("kind2") == "abs":
        return dual_ad.worker(ob)
    P, S = get_world()

    def harness(m):
        m.div_mode = "frac"
        inputs = []
        chk = Check(m)
        props = []
        kind = ob["kind"]
        if kind == "cmp":
            fn = P.functions[ob["fn"]]
            vals, extra, descr = [], [], []
            for k_, (lo, t) in enumerate(fn.params):
                bn = deref_ty(t).name
                tag = "ab"[k_]
                if bn == "f64":
                    x = z3.Real(tag + "_f"); extra.append(x)
                    vals.append((F(x), F(x), None)); descr.append(("f", x))
                else:
                    nm = mk_names(m, tag, ob["la"])
                    d = mk_dual(m, S, tag, nm, 2 if bn == "Dual2" else 1, inputs=inputs)
                    vals.append((d, parts(S, d)["real"], bn)); descr.append(("d", len(inputs) - 1))
            res = m.run_function(fn, [m.temp_ref(v[0]) for v in vals], {})
            ar, br = vals[0][1], vals[1][1]
            lt, eq = f_cmp("lt", ar, br), f_cmp("eq", ar, br)
            props.append(("result is Some", res.variant == "Some"))
            if res.variant == "Some":
                k = res.fields[0].idx
                props.append(("ordering = ordering of the values", {-1: lt, 0: eq, 1: b_not(b_or(lt, eq))}[k]))
            two = any(v[2] == "Dual2" for v in vals)

            def replay(model):
                env = input_env(model, inputs, extra)
                sc = {"kind": "dual_cmp", "ty": "Dual2" if two else "Dual"}
                for side, (kd, ref) in zip("ab", descr):
                    sc[side] = {"f64": env[str(ref)]} if kd == "f" else rec_json(inputs[ref], env)
                out = {"scenario": sc, "mismatch": [], "native": {}, "reproduced": False}
                va = sc["a"].get("f64", sc["a"].get("real")); vb = sc["b"].get("f64", sc["b"].get("real"))
                want = (va > vb) - (va < vb)
                for prof in ("dev", "release"):
                    o = native_run([sc], prof)[0]; out["native"][prof] = o
                    if o.get("panic"):
                        out["mismatch"].append(f"{prof}: panic"); continue
                    if o["partial_cmp"] != want or o["lt"] != (va < vb) or o["le"] != (va <= vb) or o["gt"] != (va > vb) or o["ge"] != (va >= vb):
                        out["mismatch"].append(f"{prof}: native {o} but values {va} ? {vb}")
                out["reproduced"] = bool(out["mismatch"])
                return out
            add_props(chk, props, replay)
        elif kind == "rem":
            fn = P.functions[ob["fn"]]
            order = ob["order"]
            ops, extra = [], []
            prev = None
            for k_, (lo, t) in enumerate(fn.params):
                bn = deref_ty(t).name
                tag = "ab"[k_]
                if bn == "f64":
                    x = z3.Real(tag + "_f"); extra.append(x)
                    ops.append(("f", F(x), x, [], t))
                else:
                    if k_ == 1 and ob["share"]:
                        d = mk_dual(m, S, "b", prev, order, arc=parts(S, ops[0][1])["vars"], inputs=inputs)
                        ops.append(("d", d, None, prev, t))
                    else:
                        nm = mk_names(m, tag, ob["la"] if k_ == 0 else ob["lb"])
                        prev = nm
                        ops.append(("d", mk_dual(m, S, tag, nm, order, inputs=inputs), None, nm, t))
            def real_of(o):
                return o[1] if o[0] == "f" else parts(S, o[1])["real"]
            ar, br = real_of(ops[0]), real_of(ops[1])
            m.assume(br.z() != 0)
            res = m.run_function(fn, [m.temp_ref(o[1]) if o[4].k == "ref" else o[1] for o in ops], {})
            q = f_trunc(m, fr_bin("div", ar, br))
            def c1(o, v):
                return F(0) if o[0] == "f" else coef1(S, o[1], v)
            def c2(o, v, w):
                return F(0) if o[0] == "f" else coef2(S, o[1], v, w)
            names = [x.id for o in ops for x in o[3]]
            Sb, Mu = (lambda x, y: fr_bin("sub", x, y)), (lambda x, y: fr_bin("mul", x, y))
            exp_real = Sb(ar, Mu(q, br))
            props.append(("shape", shape_ok(S, res)))
            props.append(("vars=union", union_exact(S, res, [[x.id for x in o[3]] for o in ops if o[0] == "d"])))
            props.append(("value = a - trunc(a/b) b", fr_eq(parts(S, res)["real"], exp_real)))
            for v in names:
                props.append((f"d/d[{v}]", fr_eq(coef1(S, res, v), Sb(c1(ops[0], v), Mu(q, c1(ops[1], v))))))
            if order == 2:
                for v in names:
                    for w in names:
                        props.append((f"d2/d[{v}]d[{w}]", fr_eq(coef2(S, res, v, w), Sb(c2(ops[0], v, w), Mu(q, c2(ops[1], v, w))))))

            def replay(model):
                env = input_env(model, inputs, extra)
                it = iter(inputs)
                sc = {"kind": "dual_binop", "ty": TY[order], "op": "rem", "ref_a": ops[0][4].k == "ref", "ref_b": ops[1][4].k == "ref", "share": ob["share"]}
                js = []
                for side, o in zip("ab", ops):
                    sc[side] = {"f64": env[str(o[2])]} if o[0] == "f" else rec_json(next(it), env)
                    js.append(sc[side])
                out = {"scenario": sc, "mismatch": [], "native": {}, "reproduced": False}
                import math
                va = js[0].get("f64", js[0].get("real")); vb = js[1].get("f64", js[1].get("real"))
                qq = math.trunc(va / vb)
                def asj(j):
                    return j if "f64" not in j else {"real": j["f64"], "vars": [], "dual": [], "dual2": []}
                A, B = asj(js[0]), asj(js[1])
                vs = sorted(set(A["vars"]) | set(B["vars"]))
                for prof in ("dev", "release"):
                    o = native_run([sc], prof)[0]; out["native"][prof] = o
                    if o.get("panic"):
                        out["mismatch"].append(f"{prof}: panic"); continue
                    if not close(o["real"], va - qq * vb):
                        out["mismatch"].append(f"{prof}: value native={o['real']} a-trunc(a/b)b={va - qq * vb}")
                    for v in vs:
                        w_ = jc1(A, v) - qq * jc1(B, v)
                        if not close(jc1(o, f"v{v}"), w_):
                            out["mismatch"].append(f"{prof}: d/dv{v} native={jc1(o, f'v{v}')} expected={w_}")
                    if order == 2:
                        for v in vs:
                            for w in vs:
                                w_ = jc2(A, v, w) - qq * jc2(B, v, w)
                                if not close(jc2(o, f"v{v}", f"v{w}"), w_):
                                    out["mismatch"].append(f"{prof}: d2/dv{v}dv{w} native={jc2(o, f'v{v}', f'v{w}')} expected={w_}")
                out["reproduced"] = bool(out["mismatch"])
                return out
            add_props(chk, props, replay)
        elif kind == "sum":
            order = ob["order"]; T_ = TY[order]
            terms = []
            for i in range(ob["k"]):
                nm = mk_names(m, f"t{i}", ob["ln"])
                terms.append((mk_dual(m, S, f"t{i}", nm, order, inputs=inputs), nm))
            from mirsym.models_coll import ListIt
            res = m.call_text(f"<{T_} as Sum>::sum", [ListIt([t for t, _ in terms])], [parse_type(f"std::vec::IntoIter<{T_}>")], parse_type(T_))
            names = [x.id for _, nm in terms for x in nm]
            tot_r = F(0)
            for t, _ in terms:
                tot_r = fr_bin("add", tot_r, parts(S, t)["real"])
            props.append(("shape", shape_ok(S, res)))
            props.append(("vars=union", union_exact(S, res, [[x.id for x in nm] for _, nm in terms])))
            props.append(("value = sum of values", fr_eq(parts(S, res)["real"], tot_r)))
            for v in names:
                e = F(0)
                for t, _ in terms:
                    e = fr_bin("add", e, coef1(S, t, v))
                props.append((f"d/d[{v}]", fr_eq(coef1(S, res, v), e)))
            if order == 2:
                for v in names:
                    for w in names:
                        e = F(0)
                        for t, _ in terms:
                            e = fr_bin("add", e, coef2(S, t, v, w))
                        props.append((f"d2/d[{v}]d[{w}]", fr_eq(coef2(S, res, v, w), e)))

            def replay(model):
                env = input_env(model, inputs)
                js = [rec_json(r, env) for r in inputs]
                sc = {"kind": "dual_sum", "ty": T_, "terms": js}
                out = {"scenario": sc, "mismatch": [], "native": {}, "reproduced": False}
                vs = sorted({v for j in js for v in j["vars"]})
                for prof in ("dev", "release"):
                    o = native_run([sc], prof)[0]; out["native"][prof] = o
                    if o.get("panic"):
                        out["mismatch"].append(f"{prof}: panic"); continue
                    if not close(o["real"], sum(j["real"] for j in js)):
                        out["mismatch"].append(f"{prof}: value native={o['real']}")
                    for v in vs:
                        if not close(jc1(o, f"v{v}"), sum(jc1(j, v) for j in js)):
                            out["mismatch"].append(f"{prof}: d/dv{v} native={jc1(o, f'v{v}')} expected={sum(jc1(j, v) for j in js)}")
                    if order == 2:
                        for v in vs:
                            for w in vs:
                                if not close(jc2(o, f"v{v}", f"v{w}"), sum(jc2(j, v, w) for j in js)):
                                    out["mismatch"].append(f"{prof}: d2/dv{v}dv{w} native differs")
                out["reproduced"] = bool(out["mismatch"])
                return out
            add_props(chk, props, replay)
        else:
            order = ob["order"]; T_ = TY[order]
            nm = mk_names(m, "a", ob["la"])
            a = mk_dual(m, S, "a", nm, order, inputs=inputs)
            names = [x.id for x in nm]
            TT = parse_type(T_)
            z = m.call_text(f"<{T_} as Zero>::zero", [], [], TT)
            o_ = m.call_text(f"<{T_} as One>::one", [], [], TT)
            add = find_fn(P, "add", T_)[0]; mul = find_fn(P, "mul", T_)[0]
            for desc, f, x, y in (("zero + a", add, z, a), ("a + zero", add, a, z), ("one * a", mul, o_, a), ("a * one", mul, a, o_)):
                r = m.run_function(f, [m.temp_ref(x), m.temp_ref(y)], {})
                props.append((desc + " name-equivalent to a", same_by_name(S, r, a, names, order)))
                props.append((desc + " carries exactly a's names", union_exact(S, r, [names])))
            iz_ = m.call_text(f"<{T_} as Zero>::is_zero", [m.temp_ref(a)], [parse_type("&" + T_)], parse_type("bool"))
            allz = fr_eq(parts(S, a)["real"], F(0))
            for v in names:
                allz = z3.And(allz, fr_eq(coef1(S, a, v), F(0)))
                if order == 2:
                    for w in names:
                        allz = z3.And(allz, fr_eq(coef2(S, a, v, w), F(0)))
            props.append(("is_zero <=> value and every derivative zero", b_eq(iz_, allz)))

            def replay(model):
                env = input_env(model, inputs)
                ja = rec_json(inputs[0], env)
                sc = {"kind": "dual_identity", "ty": T_, "a": ja}
                out = {"scenario": sc, "mismatch": [], "native": {}, "reproduced": False}
                for prof in ("dev", "release"):
                    o = native_run([sc], prof)[0]; out["native"][prof] = o
                    if o.get("panic"):
                        out["mismatch"].append(f"{prof}: panic"); continue
                    for k in ("zero_plus", "plus_zero", "one_times", "times_one"):
                        d = json_same_by_name(o[k], ja, order)
                        if d or sorted(o[k]["vars"]) != sorted(f"v{v}" for v in ja["vars"]):
                            out["mismatch"].append(f"{prof}: {k}: {d} vars={o[k]['vars']}")
                    wz = ja["real"] == 0 and all(x == 0 for x in ja["dual"]) and all(x == 0 for x in ja.get("dual2", []))
                    if o["is_zero"] != wz:
                        out["mismatch"].append(f"{prof}: is_zero native={o['is_zero']} expected={wz}")
                out["reproduced"] = bool(out["mismatch"])
                return out
            add_props(chk, props, replay)
        return chk
    return explore_ob(harness, max_paths=6000, max_seconds=1500)


def role_of(f):
    return {"site": f.get("ob", "").split(" |")[0]}


K_ORD = ["c19_ord_ieee_dual", "c19_ord_ieee_dual2", "c19_ord_ieee_number"]


def run(tier, seed):
    ev = C.Evidence(PID, tier, seed, "model_checking")
    L = 3
    obs = obligations(L, tier)
    results = run_pool(obs, worker, seed=seed)
    tot = summarize(results)
    if tot["panics"]:
        tot["undecided"].append(f"panic leaves: {tot['panics'][:3]}")
    # K part: the ordering clause in true IEEE semantics (NaN, signed zeros, infinities, subnormals), which the real-number encoding cannot see
    from vlib import kspec
    kout = kspec.run_kani_part(PID, K_ORD, 900 if tier == "quick" else 3000, jobs=3, seed=seed)
    tot["undecided"] += kout["undecided"]
    for role, path, text in kout["violations"]:
        tot["fails"].append({"ob": role["harness"], "reproduced": True, "mismatch": [text], "scenario": role})
    kres = kout["results"]
    ev.cov(kani_harnesses=[{"harness": h, "status": kres[h]["status"], "checks": kres[h].get("checks"), "solver_s": kres[h].get("solver_s"), "stubs": kres[h].get("stubs")} for h in K_ORD])
    obs = obs + [dict(id=h) for h in K_ORD]
    results = results + [{"ob": h, "paths": 1, "checks": kres[h].get("checks", 0), "holds": kres[h].get("checks", 0) if kres[h]["status"] == "success" else 0} for h in K_ORD]
    standard_finish(PID, ev, obs, results, tot, role_of,
                    bounds={"ordering_ieee": "Kani/CBMC, bit-precise: every pair of 64-bit patterns (NaNs, +-0, infinities, subnormals) for Dual/Dual, Dual/float, float/Dual, the same for Dual2, and every permitted kind pairing of the Number container; numbers without variables (the clause is about the value only)",
                            "names_per_operand": f"0..{L} (Dual), 0..{min(L, 2)} (Dual2), symbolic", "values": "symbolic reals, both signs; divisor != 0 for %",
                            "sum_terms": "0..4 quick / 0..5 thorough", "outside": "NaN/inf/rounding for everything except the ordering clause; longer sums"},
                    rule="obligation = (impl body or trait function, operand sizes); explored into feasible paths; one validity query per path",
                    assumptions=["reals instead of IEEE floats (M part); K part: std::hash::RandomState::new stubbed with a fixed key (no clause depends on hash values)", "trunc(x) modelled as the integer part toward zero", "mirsym library models"])


def replay(path):
    obj = json.load(open(path))
    if obj.get("engine") == "kani":
        from vlib import kspec
        return kspec.replay_file(path)
    print(json.dumps(obj.get("native"), indent=1)[:3000])
    return 1 if obj.get("reproduced") else 0
