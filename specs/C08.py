"""C08 — month arithmetic and roll-day rules.  Engine K (Kani/CBMC over the compiled rateslib + real chrono).
Full domain: every date 1970-2200, every month offset landing in 1970-2200, every roll kind / day 1-31,
every modifier; IMM / EoM / leap functions for every month/year of the range.  Unwinding assertions on."""
from vlib import common as C, kspec

PID = "C08"
HARNESSES = ["c08_add_months", "c08_imm", "c08_eom", "c08_is_imm_eom", "c08_leap", "c08_get_roll"]


def run(tier, seed):
    ev = C.Evidence(PID, tier, seed, "model_checking")
    timeout = 900 if tier == "quick" else 3600
    out = kspec.run_kani_part(PID, HARNESSES, timeout, jobs=6, seed=seed)
    res = out["results"]
    known_lines, violations = [], []
    for role, path, text in out["violations"]:
        k = C.match_known(PID, role)
        if k:
            known_lines.append(f"KNOWN-FINDING: property={PID} {k['what']}")
        else:
            violations.append(path)
            print("counterexample:", text)
    ok = [h for h in HARNESSES if res[h]["status"] == "success"]
    ev.cov(
        engine="Kani 0.68 / CBMC 6.11 (cadical) over the compiled crate at /repo (features verif-hooks) and the real chrono",
        functions_encoded=["DateRoll::add_months", "get_roll", "get_roll_by_day", "get_imm", "is_imm", "get_eom", "is_eom",
                           "is_leap_year", "DateRoll::roll (all 5 modifiers, identity calendar)", "chrono::NaiveDate::from_ymd_opt/year/month/day/weekday"],
        bounds={"years": "1970..=2200 (complete)", "month_offset": "-2772..=2772 restricted to results in 1970..2200 (complete for the range)",
                "roll": "Unspecified, Int 1..=31, EoM, SoM, IMM", "modifier": "all 5", "unwind": 6,
                "unwinding_assertions": "on (a too-small bound fails the harness)", "outside": "years outside 1970-2200; calendars with holidays (C04)"},
        obligations=len(HARNESSES), discharged=len(ok),
        evaluations=sum(r.get("checks", 0) for r in res.values()),
        distinct_nontrivial=len(ok),
        rule="one obligation per Kani harness = one universally quantified statement over the symbolic inputs listed in 'schema'; "
             "evaluations = CBMC property checks decided (all inside those harnesses); an obligation counts as discharged/non-trivial only if "
             "VERIFICATION SUCCESSFUL, no unwinding-assertion failure, and its kani::cover! vacuity witness is satisfiable",
        samples=[{"harness": h, "symbolic_inputs": out["schema"][h], "status": res[h]["status"], "cbmc_checks": res[h].get("checks"),
                  "solver_s": res[h].get("solver_s"), "cover": f"{res[h].get('cover_sat')}/{res[h].get('cover_total')}"} for h in HARNESSES],
        exhaustive=True,
        solver_time_s=round(sum(r.get("solver_s", 0) for r in res.values()), 2), build_s=round(out["build_s"], 1),
        stubs=sorted({s for r in res.values() for s in r.get("stubs", [])}),
        oracle="independent civil arithmetic written in kani/src/props.rs (Gregorian leap rule, month lengths, Hinnant days_from_civil weekday); no chrono in the oracle",
    )
    ev.assume("pyo3::PyErr::new stubbed to a zeroed token (error value never inspected); std::panic::catch_unwind stubbed to a direct call (Kani 0.68 ICE)",
              "CBMC bit-precise semantics of the compiled MIR; Kani's std models",
              "adjustment is the identity on the all-business calendar used here (holiday calendars are C04's subject)")
    C.finish(ev, violations, out["undecided"], known_lines)


def replay(path):
    return kspec.replay_file(path)
