"""C13 — the linear solver returns the true solution together with its derivatives (engine M, reals, division-free)."""
import z3, json, itertools
from vlib import common as C
from specs.dual_common import *
from mirsym.machine import RustPanic

PID = "C13"
ND2 = lambda t: parse_type(f"&ArrayBase<ViewRepr<&{t}>, Dim<[usize; 2]>>")
ND1 = lambda t: parse_type(f"&ArrayBase<ViewRepr<&{t}>, Dim<[usize; 1]>>")
OUT = lambda t: parse_type(f"ArrayBase<OwnedRepr<{t}>, Dim<[usize; 1]>>")


def obligations(tier):
    obs = []
    # a fully symbolic 4x4 (or 4x3 least squares) system does not fit: the fraction-mode polynomials of the last unknowns
    # have degree > 30 in 20 symbols (z3's normal form went past 12 GB per worker; even a symbolic tridiagonal band took
    # 840 s with 9 unknowns).  Size 4 is therefore covered with a symbolic right-hand side and a matrix that is concrete
    # except for ONE symbolic entry (each of the 16 positions in turn; the pivot choices that depend on it fork) or fully
    # concrete (three matrices that force a row swap at different steps): all four elimination steps and the index logic at
    # n = 4, with polynomials of small degree.
    FILL = [[2, 1, 0, 3], [1, 3, 2, 0], [0, 2, 1, 1], [3, 0, 1, 2]]
    CONC = {"swap at step 0": [[0, 2, 1, 1], [4, 1, 0, 2], [1, 3, 2, 0], [2, 0, 1, 3]],
            "swap at step 1": [[4, 1, 0, 2], [2, 0.5, 3, 1], [1, 3, 2, 0], [0, 2, 1, 1]],
            "swaps at steps 0, 1, 2": [[1, 2, 3, 4], [2, 4, 7, 9], [3, 7, 11, 16], [4, 9, 16, 30]]}
    for fn in ("dsolve", "fdsolve"):
        for n in (1, 2, 3):
            obs.append(dict(id=f"{fn}::<f64> {n}x{n}", fn=fn, ka="F64", kb="F64", r=n, c=n, lsq=False))
        for (r, c) in ((3, 2),) if tier == "quick" else ((3, 2), (4, 2)):
            obs.append(dict(id=f"{fn}::<f64> {r}x{c} least squares", fn=fn, ka="F64", kb="F64", r=r, c=c, lsq=True))
        if tier == "thorough":
            none = [[0] * 4 for _ in range(4)]
            for nm, mat in CONC.items():
                obs.append(dict(id=f"{fn}::<f64> 4x4 concrete matrix ({nm}), symbolic right-hand side", fn=fn, ka="F64", kb="F64", r=4, c=4, lsq=False, pattern=none, fill=mat))
            for pi in range(4):
                for pj in range(4):
                    pat = [[1 if (i, j) == (pi, pj) else 0 for j in range(4)] for i in range(4)]
                    obs.append(dict(id=f"{fn}::<f64> 4x4 symbolic entry ({pi},{pj}) and right-hand side", fn=fn, ka="F64", kb="F64", r=4, c=4, lsq=False, pattern=pat, fill=FILL))
            for (pi, pj) in ((0, 0), (2, 1), (3, 2)):
                pat = [[1 if (i, j) == (pi, pj) else 0 for j in range(3)] for i in range(4)]
                obs.append(dict(id=f"{fn}::<f64> 4x3 least squares, symbolic entry ({pi},{pj}) and right-hand side", fn=fn, ka="F64", kb="F64", r=4, c=3, lsq=True,
                                pattern=pat, fill=[[2, 1, 1], [1, 0, 1], [0, 2, 1], [1, 1, 3]]))
    for k in ("Dual", "Dual2"):
        for n in (1, 2):
            obs.append(dict(id=f"dsolve::<{k}> {n}x{n} shared variable list of 2", fn="dsolve", ka=k, kb=k, r=n, c=n, lsq=False, nv=2 if k == "Dual" else 1))
            obs.append(dict(id=f"fdsolve::<{k}> float A {n}x{n}", fn="fdsolve", ka="F64", kb=k, r=n, c=n, lsq=False, nv=2 if k == "Dual" else 1))
        if tier == "thorough":
            obs.append(dict(id=f"fdsolve::<{k}> float A 3x3", fn="fdsolve", ka="F64", kb=k, r=3, c=3, lsq=False, nv=1))
            obs.append(dict(id=f"fdsolve::<{k}> float A 3x2 least squares", fn="fdsolve", ka="F64", kb=k, r=3, c=2, lsq=True, nv=1))
    for n in (2, 3):
        obs.append(dict(id=f"row order independence dsolve::<f64> {n}x{n}", fn="dsolve", ka="F64", kb="F64", r=n, c=n, lsq=False, rowswap=True))
    return obs


def worker(ob):
    P, S = get_world()
    r_, c_ = ob["r"], ob["c"]

    def harness(m):
        m.div_mode = "frac"
        m.no_feas = True       # every pivot-choice combination is explored; feasibility only matters for counterexamples
        inputs = []
        nv = ob.get("nv", 0)
        names = [Atom(i, f"v{i}") for i in range(nv)]      # one shared, concrete variable list: no layout forks here (layouts are C03)
        arc = m.new_arc(SetV(names)) if nv else None

        def entry(tag, kind):
            if kind == "F64":
                x = z3.Real(tag)
                inputs.append({"tag": tag, "order": 0, "real": x, "names": [], "dual": [], "kind": "F64"})
                return F(x)
            d = mk_dual(m, S, tag, names, 1 if kind == "Dual" else 2, arc=arc, inputs=inputs)
            inputs[-1]["kind"] = kind
            return d
        def centry(tag, val):
            inputs.append({"tag": tag, "order": 0, "real": z3.RealVal(val), "names": [], "dual": [], "kind": "F64"})
            return F(Fraction(val))
        pat, fill = ob.get("pattern"), ob.get("fill")
        A = [[entry(f"a{i}{j}", ob["ka"]) if (pat is None or pat[i][j]) else centry(f"a{i}{j}", fill[i][j]) for j in range(c_)] for i in range(r_)]
        b = [entry(f"b{i}", ob["kb"]) for i in range(r_)]
        ta, tb = {"F64": "f64"}.get(ob["ka"], ob["ka"]), {"F64": "f64"}.get(ob["kb"], ob["kb"])
        An, bn = Nd((r_, c_), [x for row in A for x in row]), Nd((r_,), b)
        chk = Check(m)
        try:
            x = m.call_text(f"dual::linalg::{'linalg_dual' if ob['fn'] == 'dsolve' else 'linalg_f64'}::{ob['fn']}::<{tb}>", [m.temp_ref(An), m.temp_ref(bn), ob["lsq"]],
                            [ND2(ta), ND1(tb), parse_type("bool")], OUT(tb), env={"T": parse_type(tb)})
        except RustPanic as e:
            chk.add("no abort on a well-formed system: " + e.msg[:80], False, None)
            return chk
        nonsing = list(m.div_guards)
        real = lambda v: v if isinstance(v, F) else parts(S, v)["real"]
        props = [("shape", x.shape == (c_,))]
        if x.shape != (c_,):
            add_props(chk, props, None)
            return chk
        # value equations (normal equations for least squares)
        if ob["lsq"]:
            M_ = [[None] * c_ for _ in range(c_)]
            rhs = [None] * c_
            for p in range(c_):
                for q in range(c_):
                    acc = F(0)
                    for i in range(r_):
                        acc = fr_bin("add", acc, fr_bin("mul", real(A[i][p]), real(A[i][q])))
                    M_[p][q] = acc
                acc = F(0)
                for i in range(r_):
                    acc = fr_bin("add", acc, fr_bin("mul", real(A[i][p]), real(b[i])))
                rhs[p] = acc
            rows, rr = M_, rhs
        else:
            rows, rr = [[real(v) for v in row] for row in A], [real(v) for v in b]
        eqs = []
        pairs = []
        for i in range(len(rows)):
            acc = F(0)
            for j in range(c_):
                acc = fr_bin("add", acc, fr_bin("mul", rows[i][j], real(x.data[j])))
            eqs.append(fr_eq(acc, rr[i]))
            pairs.append((acc, rr[i]))
        ident = z3.And(*eqs)
        # derivatives: the residual computed with the crate's own dmul21_ equals b by name
        dprops = []
        if ob["kb"] != "F64" and not ob["lsq"]:
            ids = [a.id for a in names]
            order = 1 if ob["kb"] == "Dual" else 2
            for i in range(r_):
                # sum_j A_ij * x_j  by the product rule, per name
                for v in ids:
                    acc = F(0)
                    for j in range(c_):
                        aij = A[i][j]
                        da = F(0) if isinstance(aij, F) else coef1(S, aij, v)
                        acc = fr_bin("add", acc, fr_bin("add", fr_bin("mul", da, real(x.data[j])), fr_bin("mul", real(aij), coef1(S, x.data[j], v))))
                    dprops.append(fr_eq(acc, coef1(S, b[i], v))); pairs.append((acc, coef1(S, b[i], v)))
                if order == 2:
                    for v in ids:
                        for w in ids:
                            acc = F(0)
                            for j in range(c_):
                                aij = A[i][j]
                                af = isinstance(aij, F)
                                h_a = F(0) if af else coef2(S, aij, v, w)
                                ga_v = F(0) if af else coef1(S, aij, v)
                                ga_w = F(0) if af else coef1(S, aij, w)
                                xj = x.data[j]
                                t = fr_bin("add", fr_bin("mul", h_a, real(xj)), fr_bin("mul", real(aij), coef2(S, xj, v, w)))
                                t = fr_bin("add", t, fr_bin("add", fr_bin("mul", ga_v, coef1(S, xj, w)), fr_bin("mul", ga_w, coef1(S, xj, v))))
                                acc = fr_bin("add", acc, t)
                            dprops.append(fr_eq(acc, coef2(S, b[i], v, w))); pairs.append((acc, coef2(S, b[i], v, w)))
        if ob.get("rowswap"):
            A2 = [A[1], A[0]] + A[2:]
            b2 = [b[1], b[0]] + b[2:]
            x2 = m.call_text("dual::linalg::linalg_dual::dsolve::<f64>", [m.temp_ref(Nd((r_, c_), [v for row in A2 for v in row])), m.temp_ref(Nd((r_,), b2)), False],
                             [ND2("f64"), ND1("f64"), parse_type("bool")], OUT("f64"), env={"T": parse_type("f64")})
            nonsing = list(m.div_guards)
            dprops.append(z3.And(*[fr_eq(p, q) for p, q in zip(x.data, x2.data)]))
            pairs += list(zip(x.data, x2.data))
        full = z3.And(ident, *dprops) if dprops else ident

        def replay(model):
            env = input_env(model, inputs)
            def nj(rec):
                if rec["kind"] == "F64":
                    return {"kind": "F64", "f64": env[str(rec["real"])]}
                j = rec_json(rec, env); j["kind"] = rec["kind"]; return j
            it = iter(inputs)
            Aj = [[nj(next(it)) for _ in range(c_)] for _ in range(r_)]
            bj = [nj(next(it)) for _ in range(r_)]
            sc = {"kind": "linalg", "fn": ob["fn"], "kind_a": ob["ka"], "kind_b": ob["kb"], "a": Aj, "b": bj, "allow_lsq": ob["lsq"]}
            out = {"scenario": sc, "mismatch": [], "native": {}, "reproduced": False}
            rv_ = lambda j: j.get("f64", j.get("real"))
            for prof in ("dev", "release"):
                o = native_run([sc], prof)[0]
                out["native"][prof] = o
                if o.get("panic"):
                    out["mismatch"].append(f"{prof}: panic"); continue
                xs = o["x"]
                Ar = [[rv_(v) for v in row] for row in Aj]; br = [rv_(v) for v in bj]
                if ob["lsq"]:
                    Mx = [[sum(Ar[i][p] * Ar[i][q] for i in range(r_)) for q in range(c_)] for p in range(c_)]
                    rh = [sum(Ar[i][p] * br[i] for i in range(r_)) for p in range(c_)]
                else:
                    Mx, rh = Ar, br
                for i in range(len(Mx)):
                    lhs = sum(Mx[i][j] * xs[j]["real"] for j in range(c_)) if all(v["real"] is not None for v in xs) else None
                    if lhs is None or not close(lhs, rh[i], 1e-7):
                        out["mismatch"].append(f"{prof}: row {i}: (A x)={lhs} b={rh[i]}")
                if ob["kb"] != "F64" and not ob["lsq"]:
                    vs = sorted({v for j in bj for v in j.get("vars", [])} | {v for row in Aj for j in row for v in j.get("vars", [])})
                    for i in range(r_):
                        for v in vs:
                            lhs = sum((jc1(Aj[i][j], v) if "vars" in Aj[i][j] else 0.0) * xs[j]["real"] + Ar[i][j] * jc1(xs[j], f"v{v}") for j in range(c_))
                            if not close(lhs, jc1(bj[i], v), 1e-7):
                                out["mismatch"].append(f"{prof}: row {i}: d/dv{v} (A x)={lhs} b={jc1(bj[i], v)}")
            out["reproduced"] = bool(out["mismatch"])
            return out
        # the algebraic identity is checked WITHOUT the pivot-choice conditions (it holds along the computation of the
        # path whatever made the path be taken); only 'every pivot used is non-zero' is assumed
        if all(poly_identity(p, q) for p, q in pairs):
            r, model = "holds", None       # every clause is a polynomial identity after cross-multiplication (ring normal form = 0)
        else:
            r, model = m.check_defs_only(nonsing, full)
        if r == "holds":
            chk.add("A x = b (value and derivatives) given non-zero pivots", True, None)
        elif r == "unknown":
            chk.add("A x = b: solver gave up", z3.BoolVal(False) if False else None, None)
            chk.items[-1] = ("A x = b: solver unknown", "UNKNOWN", None)
        else:
            # confirm with the path condition included, then replay
            chk.add("A x = b (value and derivatives) given non-zero pivots", z3.Implies(z3.And(*nonsing), full) if nonsing else full, replay)
        if ob["ka"] == "F64" and ob["kb"] == "F64" and not ob["lsq"] and r_ == c_ and r_ <= 3 and not ob.get("rowswap") and m.div_guards:
            # partial pivoting must never pick a zero pivot on a NON-SINGULAR matrix (uses the pivot-choice conditions of the path)
            a = [[real(v).z() for v in row] for row in A]
            if r_ == 1:
                det = a[0][0]
            elif r_ == 2:
                det = a[0][0] * a[1][1] - a[0][1] * a[1][0]
            else:
                det = (a[0][0] * (a[1][1] * a[2][2] - a[1][2] * a[2][1]) - a[0][1] * (a[1][0] * a[2][2] - a[1][2] * a[2][0]) + a[0][2] * (a[1][0] * a[2][1] - a[1][1] * a[2][0]))
            chk.add("non-singular matrix => every pivot chosen on this path is non-zero", z3.Implies(det != 0, z3.And(*m.div_guards)), replay)
        add_props(chk, props, None)
        return chk

    res = explore_ob(harness, max_paths=4000, max_seconds=1500)
    return res


def run(tier, seed):
    ev = C.Evidence(PID, tier, seed, "model_checking")
    obs = obligations(tier)
    results = run_pool(obs, worker, seed=seed)
    tot = summarize(results)
    if tot["panics"]:
        tot["undecided"].append(f"panic leaves: {tot['panics'][:3]}")
    standard_finish(PID, ev, obs, results, tot, lambda f: {"site": f.get("ob", "").split(" ")[0]},
                    bounds={"square": "n = 1..3 fully symbolic, every pivot path (row choice by largest |entry|, ties as max_by); thorough adds n = 4 with a symbolic right-hand side and a matrix that is concrete (three matrices forcing row swaps at different steps) or concrete except one symbolic entry (each of the 16 positions)", "least_squares": "3x2 (quick), 4x2 fully symbolic and 4x3 with one symbolic entry and a symbolic right-hand side (thorough): normal equations",
                            "dual_entries": "1x1 and 2x2 systems with Dual / Dual2 entries over a shared list of 2 (Dual) / 1 (Dual2) names in A and b; float A with dual b likewise (3x3 in thorough)",
                            "row_order": "row-swapped system gives the same x for n = 2, 3", "outside": "n > 4; fully symbolic 4x4 / 4x3 (the fraction polynomials exceed memory: > 12 GB per worker); conditioning / rounding (reals); entries with unrelated variable lists"},
                    rule="obligation = (solver, element kinds, shape); paths = pivot choices; per path ONE validity query of the algebraic identity A x = b (and its per-name first/second derivative forms) under 'every pivot used is non-zero', discharged without the pivot-choice conditions",
                    assumptions=["reals; divisions encoded division-free (fresh quotient q with q*d = n)", "non-singular along the path = all divisors used are non-zero", "Dual operators are those verified by C01/C02 (interpreted again here)"])


def replay(path):
    obj = json.load(open(path))
    print(json.dumps(obj.get("native"), indent=1)[:3000])
    return 1 if obj.get("reproduced") else 0
