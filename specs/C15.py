"""C15 — a solved spline reproduces data, end conditions and polynomials, with exact AD (engine M, reals).
Knot vectors and data sites are concrete layouts (so the collocation matrix and its pivoting are concrete); data values,
polynomial coefficients and the evaluation point are symbolic."""
import z3, json
from fractions import Fraction as Fr
from vlib import common as C
from specs.dual_common import *
from specs.fx_common import str_coef1, str_coef2, var_names
from mirsym.machine import RustPanic

PID = "C15"
TN = {"F64": "f64", "Dual": "Dual", "Dual2": "Dual2"}


def layouts(tier):
    L = [
        dict(name="k2 linear, 3 sites", k=2, t=[0, 0, 1, 2, 2], tau=[0, 1, 2], ln=0, rn=0),
        dict(name="k3, 4 uneven sites", k=3, t=[0, 0, 0, 1, 2, 2, 2], tau=[0, Fr(1, 2), Fr(3, 2), 2], ln=0, rn=0),
        dict(name="k4 single span, 4 sites", k=4, t=[0, 0, 0, 0, 4, 4, 4, 4], tau=[0, 1, 3, 4], ln=0, rn=0),
        dict(name="k4 natural spline (repeated end sites, second-derivative conditions)", k=4, t=[0, 0, 0, 0, 1, 2, 3, 3, 3, 3], tau=[0, 0, 1, 2, 3, 3], ln=2, rn=2),
    ]
    if True:
        L += [dict(name="k4 uneven knots, first-derivative end conditions", k=4, t=[0, 0, 0, 0, Fr(1, 2), 2, 3, 3, 3, 3], tau=[0, 0, Fr(1, 2), 2, 3, 3], ln=1, rn=1),
              dict(name="k3 repeated interior knot", k=3, t=[0, 0, 0, 1, 1, 2, 2, 2], tau=[0, Fr(1, 2), 1, Fr(3, 2), 2], ln=0, rn=0),
              dict(name="k5 single span", k=5, t=[0] * 5 + [2] * 5, tau=[0, Fr(1, 2), 1, Fr(3, 2), 2], ln=0, rn=0)]
    if tier == "thorough":
        L += [dict(name="k5 two interior knots, 7 sites", k=5, t=[0] * 5 + [1, 2] + [3] * 5, tau=[0, Fr(1, 2), 1, Fr(3, 2), 2, Fr(5, 2), 3], ln=0, rn=0),
              dict(name="k6 single span", k=6, t=[0] * 6 + [2] * 6, tau=[0, Fr(1, 3), Fr(2, 3), 1, Fr(3, 2), 2], ln=0, rn=0),
              dict(name="k4 natural spline, uneven interior sites", k=4, t=[0, 0, 0, 0, Fr(1, 2), Fr(3, 2), 4, 4, 4, 4], tau=[0, 0, Fr(1, 2), Fr(3, 2), 4, 4], ln=2, rn=2),
              dict(name="k3 clamped-slope ends", k=3, t=[0, 0, 0, 1, 3, 3, 3], tau=[0, 0, 1, 3], ln=1, rn=0)]
    return L


def obligations(tier):
    obs = []
    for li, L in enumerate(layouts(tier)):
        for what in ("data", "poly", "dual_data", "dual_abscissa"):
            obs.append(dict(id=f"{L['name']}: {what}", li=li, what=what))
    for sp in ("F64", "Dual", "Dual2"):
        for ab in ("F64", "Dual", "Dual2"):
            obs.append(dict(id=f"type table: spline {sp} x abscissa {ab}", li=0, what="table", sp=sp, ab=ab))
    for case in ("fewer sites", "more sites without lsq", "more sites with lsq", "tau/y length mismatch", "evaluate before csolve"):
        obs.append(dict(id=f"errors: {case}", li=1, what="errors", case=case))
    return obs


def new_spline(m, S, T, k, t):
    tv = Seq([F(Fr(x)) for x in t])
    return m.call_text(f"PPSpline::<{TN[T]}>::new", [k, tv, NONE], [parse_type("usize"), parse_type("Vec<f64>"), parse_type(f"Option<Vec<{TN[T]}>>")], parse_type(f"PPSpline<{TN[T]}>"), env={"T": parse_type(TN[T])})


def csolve(m, S, T, cell, tau, y, ln, rn, lsq=False):
    return m.call_text(f"PPSpline::<{TN[T]}>::csolve", [Ref(cell, (), True), m.temp_ref(Seq([F(Fr(x)) for x in tau])), m.temp_ref(Seq(y)), ln, rn, lsq],
                       [parse_type(f"&mut PPSpline<{TN[T]}>"), parse_type("&[f64]"), parse_type(f"&[{TN[T]}]"), parse_type("usize"), parse_type("usize"), parse_type("bool")],
                       parse_type("Result<(), PyErr>"), env={"T": parse_type(TN[T])})


def ev(m, S, T, cell, x, m_):
    return m.call_text(f"PPSpline::<{TN[T]}>::ppdnev_single", [Ref(cell, (), False), m.temp_ref(x if isinstance(x, F) else F(x)), m_],
                       [parse_type(f"&PPSpline<{TN[T]}>"), parse_type("&f64"), parse_type("usize")], parse_type(f"Result<{TN[T]}, PyErr>"), env={"T": parse_type(TN[T])})


def worker(ob):
    P, S = get_world()
    tier, _ = C.tier_seed()
    L = layouts("thorough")[ob["li"]] if ob["li"] < len(layouts("thorough")) else None
    what = ob["what"]

    def harness(m):
        m.div_mode = "frac"
        k, t, tau, ln, rn = L["k"], L["t"], L["tau"], L["ln"], L["rn"]
        n = len(t) - k
        chk = Check(m)
        props = []
        x = z3.Real("x")
        m.assume(x >= rv(Fr(t[0]))); m.assume(x <= rv(Fr(t[-1])))
        sc = {"kind": "ppspline", "k": k, "t": [float(Fr(v)) for v in t], "tau": [float(Fr(v)) for v in tau], "left_n": ln, "right_n": rn, "allow_lsq": False}
        info = {}
        try:
            if what == "data":
                ys = [z3.Real(f"y{j}") for j in range(n)]
                cell = Cell(new_spline(m, S, "F64", k, t))
                r = csolve(m, S, "F64", cell, tau, [F(y) for y in ys], ln, rn)
                props.append(("csolve Ok", r.variant == "Ok"))
                for j in range(n):
                    mm = ln if j == 0 else rn if j == n - 1 else 0
                    v = ev(m, S, "F64", cell, F(Fr(tau[j])), mm)
                    props.append((f"site {j}: " + ("value" if mm == 0 else f"derivative {mm}") + " equals the datum", v.variant == "Ok" and fr_eq(v.fields[0], F(ys[j]))))
                info.update(ty="F64", ys=ys, evals=[(Fr(tau[j]), ln if j == 0 else rn if j == n - 1 else 0) for j in range(n)])
            elif what == "poly":
                coef = [z3.Real(f"p{d}") for d in range(k)]
                def pval(xx, mm):
                    e = z3.RealVal(0)
                    for d in range(mm, k):
                        f = 1
                        for q in range(mm):
                            f *= (d - q)
                        e = e + coef[d] * f * (xx ** (d - mm) if d - mm > 0 else 1)
                    return e
                ysF = []
                for j in range(n):
                    mm = ln if j == 0 else rn if j == n - 1 else 0
                    ysF.append(F(z3.simplify(pval(rv(Fr(tau[j])), mm))))
                cell = Cell(new_spline(m, S, "F64", k, t))
                r = csolve(m, S, "F64", cell, tau, ysF, ln, rn)
                props.append(("csolve Ok", r.variant == "Ok"))
                for mm in range(0, k + 1):
                    v = ev(m, S, "F64", cell, F(x), mm)
                    want = pval(x, mm) if mm < k else z3.RealVal(0)
                    props.append((f"derivative {mm} of the spline equals that of the polynomial at every x", v.variant == "Ok" and fr_eq(v.fields[0], F(want))))
                info.update(ty="F64", coef=coef, poly=True)
            elif what == "dual_data":
                for T in (("Dual", "Dual2") if tier == "thorough" or k <= 3 else ("Dual",)):
                    order = 1 if T == "Dual" else 2
                    ys = [z3.Real(f"y{j}") for j in range(n)]
                    yd = []
                    for j in range(n):
                        by = {"real": F(ys[j]), "vars": m.new_arc(SetV([Str(f"v{j}")])), "dual": Nd((1,), [F(1)]), "dual2": Nd((1, 1), [F(0)])}
                        yd.append(Struct(T, [by[f] for f in S.structs[T]]))
                    cell = Cell(new_spline(m, S, T, k, t))
                    r = csolve(m, S, T, cell, tau, yd, ln, rn)
                    props.append((f"{T}: csolve Ok", r.variant == "Ok"))
                    v = ev(m, S, T, cell, F(x), 0)
                    props.append((f"{T}: Ok", v.variant == "Ok"))
                    cf = Cell(new_spline(m, S, "F64", k, t))
                    csolve(m, S, "F64", cf, tau, [F(y) for y in ys], ln, rn)
                    vf = ev(m, S, "F64", cf, F(x), 0)
                    props.append((f"{T}: value equals the float spline", fr_eq(parts(S, v.fields[0])["real"], vf.fields[0])))
                    for j in range(n):
                        cu = Cell(new_spline(m, S, "F64", k, t))
                        csolve(m, S, "F64", cu, tau, [F(1 if q == j else 0) for q in range(n)], ln, rn)
                        vu = ev(m, S, "F64", cu, F(x), 0)
                        props.append((f"{T}: sensitivity to datum {j} = spline of the unit data e_{j}", fr_eq(str_coef1(S, v.fields[0], f"v{j}"), vu.fields[0])))
                    if order == 2:
                        for a in range(n):
                            for b in range(n):
                                props.append((f"{T}: no second-order sensitivity (the spline is linear in the data)", fr_eq(str_coef2(S, v.fields[0], f"v{a}", f"v{b}"), F(0))))
                info.update(ty="Dual", ys=ys, dual_data=True)
            elif what == "dual_abscissa":
                ys = [z3.Real(f"y{j}") for j in range(n)]
                cell = Cell(new_spline(m, S, "F64", k, t))
                csolve(m, S, "F64", cell, tau, [F(y) for y in ys], ln, rn)
                # the abscissa carries TWO variables with independent first-order coefficients and a full symmetric second-order block
                gs = [z3.Real("g0"), z3.Real("g1")]
                hh = {(0, 0): z3.Real("h00"), (0, 1): z3.Real("h01"), (1, 1): z3.Real("h11")}
                hh[(1, 0)] = hh[(0, 1)]
                VN = ["v8", "v9"]
                info.update(ty="F64", ys=ys, abscissa=(gs, hh))
                s0, s1, s2 = (ev(m, S, "F64", cell, F(x), mm).fields[0] for mm in (0, 1, 2))
                arc = m.new_arc(SetV([Str(v) for v in VN]))
                xd = Struct("Dual", [dict(real=F(x), vars=arc, dual=Nd((2,), [F(g) for g in gs]))[f] for f in S.structs["Dual"]])
                xd2 = Struct("Dual2", [dict(real=F(x), vars=arc, dual=Nd((2,), [F(g) for g in gs]), dual2=Nd((2, 2), [F(hh[(a, b)]) for a in range(2) for b in range(2)]))[f] for f in S.structs["Dual2"]])
                r1 = m.call_text("PPSpline::<f64>::ppdnev_single_dual", [Ref(cell, (), False), m.temp_ref(xd), 0], [parse_type("&PPSpline<f64>"), parse_type("&Dual"), parse_type("usize")], parse_type("Result<Dual, PyErr>"))
                r2 = m.call_text("PPSpline::<f64>::ppdnev_single_dual2", [Ref(cell, (), False), m.temp_ref(xd2), 0], [parse_type("&PPSpline<f64>"), parse_type("&Dual2"), parse_type("usize")], parse_type("Result<Dual2, PyErr>"))
                props.append(("Ok", r1.variant == "Ok" and r2.variant == "Ok"))
                if r1.variant == "Ok" and r2.variant == "Ok":
                    d1, d2 = r1.fields[0], r2.fields[0]
                    Mu = lambda a, b: fr_bin("mul", a, b)
                    props.append(("dual abscissa: value s(x)", fr_eq(parts(S, d1)["real"], s0)))
                    props.append(("dual2 abscissa: value", fr_eq(parts(S, d2)["real"], s0)))
                    props.append(("dual / dual2 abscissa: result shape", shape_ok(S, d1) and shape_ok(S, d2)))
                    for a in range(2):
                        props.append((f"dual abscissa: sensitivity s'(x) g_{a}", fr_eq(str_coef1(S, d1, VN[a]), Mu(s1, F(gs[a])))))
                        props.append((f"dual2 abscissa: first order s'(x) g_{a}", fr_eq(str_coef1(S, d2, VN[a]), Mu(s1, F(gs[a])))))
                        for b in range(2):
                            props.append((f"dual2 abscissa: second order ({a},{b}) = s''(x) g_{a} g_{b} + s'(x) 2 h_{a}{b}",
                                          fr_eq(str_coef2(S, d2, VN[a], VN[b]), fr_bin("add", Mu(s2, Mu(F(gs[a]), F(gs[b]))), Mu(s1, F(2 * hh[(a, b)]))))))
            elif what == "table":
                sp, ab = ob["sp"], ob["ab"]
                ys = [z3.Real(f"y{j}") for j in range(n)]
                def datum(j):
                    if sp == "F64":
                        return F(ys[j])
                    by = {"real": F(ys[j]), "vars": m.new_arc(SetV([Str(f"v{j}")])), "dual": Nd((1,), [F(1)]), "dual2": Nd((1, 1), [F(0)])}
                    return Struct(sp, [by[f] for f in S.structs[sp]])
                cell = Cell(new_spline(m, S, sp, k, t))
                csolve(m, S, sp, cell, tau, [datum(j) for j in range(n)], ln, rn)
                arc = m.new_arc(SetV([Str("v9")]))
                if ab == "F64":
                    xn = Enum("Number", "F64", {vn: d for vn, d, _ in S.enums["Number"]}["F64"], [F(x)])
                else:
                    by = dict(real=F(x), vars=arc, dual=Nd((1,), [F(1)]), dual2=Nd((1, 1), [F(0)]))
                    xn = Enum("Number", ab, {vn: d for vn, d, _ in S.enums["Number"]}[ab], [Struct(ab, [by[f] for f in S.structs[ab]])])
                r = m.call_text(f"<PPSpline<{TN[sp]}> as NumberMapping>::mapped_value", [Ref(cell, (), False), m.temp_ref(xn)], [parse_type(f"&PPSpline<{TN[sp]}>"), parse_type("&Number")], parse_type("Result<Number, PyErr>"))
                refuse = (sp, ab) in (("Dual", "Dual2"), ("Dual2", "Dual"))
                props.append(("refused exactly for first-order spline with second-order abscissa and vice versa", (r.variant == "Err") == refuse))
                if r.variant == "Ok":
                    want_kind = {"F64": 0, "Dual": 1, "Dual2": 2}
                    wk = max(want_kind[sp], want_kind[ab])
                    props.append(("result kind is the higher of the two orders", r.fields[0].variant == {0: "F64", 1: "Dual", 2: "Dual2"}[wk]))
                    cf = Cell(new_spline(m, S, "F64", k, t))
                    csolve(m, S, "F64", cf, tau, [F(y) for y in ys], ln, rn)
                    vf = ev(m, S, "F64", cf, F(x), 0).fields[0]
                    got = r.fields[0].fields[0]
                    props.append(("value equals the float spline", fr_eq(got if isinstance(got, F) else parts(S, got)["real"], vf)))
                info.update(ty=sp, ys=ys, table=(sp, ab))
            else:
                case = ob["case"]
                ys = [z3.Real(f"y{j}") for j in range(n + 1)]
                info.update(ty="F64", ys=ys, errors=case)
                cell = Cell(new_spline(m, S, "F64", k, t))
                if case == "fewer sites":
                    r = csolve(m, S, "F64", cell, tau[:-1], [F(y) for y in ys[:n - 1]], ln, rn)
                    props.append(("Err", r.variant == "Err"))
                elif case == "more sites without lsq":
                    r = csolve(m, S, "F64", cell, list(tau[:-1]) + [Fr(7, 4), tau[-1]], [F(y) for y in ys[:n + 1]], ln, rn, False)
                    props.append(("Err", r.variant == "Err"))
                elif case == "more sites with lsq":
                    r = csolve(m, S, "F64", cell, list(tau[:-1]) + [Fr(7, 4), tau[-1]], [F(y) for y in ys[:n + 1]], ln, rn, True)
                    props.append(("Ok", r.variant == "Ok"))
                elif case == "tau/y length mismatch":
                    r = csolve(m, S, "F64", cell, tau, [F(y) for y in ys[:n - 1]], ln, rn)
                    props.append(("Err", r.variant == "Err"))
                else:
                    r = ev(m, S, "F64", cell, F(x), 0)
                    props.append(("Err before solving", r.variant == "Err"))
                info.update(ty="F64", ys=ys, errors=case)
        except RustPanic as e:
            props.append(("no abort: " + e.msg[:100], False))
        props.append(("no division by zero", z3.And(*m.div_guards) if m.div_guards else True))

        def replay(model):
            xv = float(mval(model, x))
            out = {"scenario": None, "mismatch": [], "native": {}, "reproduced": False}
            s = dict(sc)
            if "errors" in info:
                case = info["errors"]
                yv = [float(mval(model, y)) for y in info["ys"]]
                if case == "fewer sites": s["tau"] = s["tau"][:-1]; s["y"] = [{"kind": "F64", "f64": v} for v in yv[:n - 1]]
                elif case.startswith("more sites"):
                    s["tau"] = s["tau"][:-1] + [1.75, s["tau"][-1]]; s["y"] = [{"kind": "F64", "f64": v} for v in yv[:n + 1]]; s["allow_lsq"] = case.endswith("with lsq")
                elif case == "tau/y length mismatch": s["y"] = [{"kind": "F64", "f64": v} for v in yv[:n - 1]]
                else:
                    out["reproduced"] = True; out["mismatch"].append("evaluate-before-solve: not replayed natively"); return out
                s["ty"] = "F64"; s["evals"] = []
                out["scenario"] = s
                for prof in ("dev", "release"):
                    o = native_run([s], prof)[0]; out["native"][prof] = o
                    want_err = not case.endswith("with lsq")
                    if o.get("panic") or (("err" in o) != want_err):
                        out["mismatch"].append(f"{prof}: {case}: native {o}")
                out["reproduced"] = bool(out["mismatch"])
                return out
            if info.get("poly"):
                cv = [float(mval(model, c)) for c in info["coef"]]
                def pv(xx, mm):
                    tot = 0.0
                    for d in range(mm, k):
                        f = 1
                        for q in range(mm): f *= (d - q)
                        tot += cv[d] * f * xx ** (d - mm)
                    return tot
                yv = [pv(float(Fr(tau[j])), ln if j == 0 else rn if j == n - 1 else 0) for j in range(n)]
                s["ty"] = "F64"; s["y"] = [{"kind": "F64", "f64": v} for v in yv]
                s["evals"] = [{"x": {"kind": "F64", "f64": xv}, "m": mm} for mm in range(k + 1)]
                out["scenario"] = s
                for prof in ("dev", "release"):
                    o = native_run([s], prof)[0]; out["native"][prof] = o
                    if "evals" not in o:
                        out["mismatch"].append(f"{prof}: {o}"); continue
                    for mm in range(k + 1):
                        w = pv(xv, mm) if mm < k else 0.0
                        if not close(o["evals"][mm].get("real"), w, 1e-7):
                            out["mismatch"].append(f"{prof}: derivative {mm} at {xv}: native={o['evals'][mm].get('real')} polynomial={w}")
                out["reproduced"] = bool(out["mismatch"])
                return out
            yv = [float(mval(model, y)) for y in info["ys"]][:n]
            if info.get("dual_data") or (info.get("table") and info["table"][0] != "F64"):
                T = "Dual" if not info.get("table") else info["table"][0]
                s["ty"] = T; s["y"] = [{"kind": T, "real": yv[j], "vars": [j], "dual": [1.0], "dual2": [0.0]} for j in range(n)]
            else:
                s["ty"] = "F64"; s["y"] = [{"kind": "F64", "f64": v} for v in yv]
            if info.get("evals"):
                s["evals"] = [{"x": {"kind": "F64", "f64": float(xx)}, "m": mm} for xx, mm in info["evals"]]
            elif info.get("abscissa"):
                gv = [float(mval(model, g_)) for g_ in info["abscissa"][0]]
                hv = [[float(mval(model, info["abscissa"][1][(a, b)])) for b in range(2)] for a in range(2)]
                s["evals"] = [{"x": {"kind": "F64", "f64": xv}, "m": 0}, {"x": {"kind": "F64", "f64": xv}, "m": 1}, {"x": {"kind": "F64", "f64": xv}, "m": 2},
                              {"x": {"kind": "Dual", "real": xv, "vars": [8, 9], "dual": gv}, "m": 0},
                              {"x": {"kind": "Dual2", "real": xv, "vars": [8, 9], "dual": gv, "dual2": [hv[0][0], hv[0][1], hv[1][0], hv[1][1]]}, "m": 0}]
            elif info.get("table"):
                ab = info["table"][1]
                xj = {"kind": "F64", "f64": xv} if ab == "F64" else {"kind": ab, "real": xv, "vars": [9], "dual": [1.0], "dual2": [0.0]}
                s["evals"] = [{"x": xj, "via": "mapped"}]
            else:
                s["evals"] = [{"x": {"kind": "F64", "f64": xv}, "m": 0}]
            out["scenario"] = s
            for prof in ("dev", "release"):
                o = native_run([s], prof)[0]; out["native"][prof] = o
                if "evals" not in o:
                    out["mismatch"].append(f"{prof}: {o}"); continue
                if info.get("evals"):
                    for j, e_ in enumerate(o["evals"]):
                        if not close(e_.get("real"), yv[j], 1e-8):
                            out["mismatch"].append(f"{prof}: site {j}: native={e_.get('real')} datum={yv[j]}")
                elif info.get("abscissa"):
                    s0, s1, s2 = (o["evals"][q]["real"] for q in range(3))
                    d1, d2 = o["evals"][3], o["evals"][4]
                    VN = ["v8", "v9"]
                    bad = not close(d1["real"], s0) or not close(d2["real"], s0)
                    for a in range(2):
                        bad = bad or not close(jc1(d1, VN[a]), s1 * gv[a], 1e-8) or not close(jc1(d2, VN[a]), s1 * gv[a], 1e-8)
                        for b in range(2):
                            bad = bad or not close(jc2(d2, VN[a], VN[b]), s2 * gv[a] * gv[b] + s1 * 2 * hv[a][b], 1e-8)
                    if bad:
                        out["mismatch"].append(f"{prof}: dual abscissa: s={s0} s'={s1} s''={s2} g={gv} h={hv} native dual={d1} dual2={d2}")
                elif info.get("table"):
                    sp_, ab_ = info["table"]
                    refuse = (sp_, ab_) in (("Dual", "Dual2"), ("Dual2", "Dual"))
                    if bool(o["evals"][0].get("err")) != refuse:
                        out["mismatch"].append(f"{prof}: table {sp_} x {ab_}: native {o['evals'][0]}")
                elif info.get("dual_data"):
                    got = o["evals"][0]
                    for j in range(n):
                        su = dict(s); su["ty"] = "F64"; su["y"] = [{"kind": "F64", "f64": 1.0 if q == j else 0.0} for q in range(n)]; su["evals"] = [{"x": {"kind": "F64", "f64": xv}, "m": 0}]
                        u = native_run([su], prof)[0]["evals"][0]["real"]
                        if not close(jc1(got, f"v{j}"), u, 1e-8):
                            out["mismatch"].append(f"{prof}: sensitivity to datum {j}: native={jc1(got, f'v{j}')} unit-data spline={u}")
            out["reproduced"] = bool(out["mismatch"])
            return out
        add_props(chk, props, replay)
        return chk
    return explore_ob(harness, max_paths=3000, max_seconds=1500, max_decisions=20000, max_steps=5000000)


def run(tier, seed):
    ev_ = C.Evidence(PID, tier, seed, "model_checking")
    obs = obligations(tier)
    results = run_pool(obs, worker, seed=seed)
    tot = summarize(results)
    if tot["panics"]:
        tot["undecided"].append(f"panic leaves: {tot['panics'][:3]}")
    standard_finish(PID, ev_, obs, results, tot, lambda f: {"site": f.get("ob", "").split(":")[-1].strip()},
                    bounds={"layouts": [L["name"] for L in layouts(tier)], "data": "symbolic real data values / symbolic polynomial coefficients (degree < k) / Dual and Dual2 data with one variable per datum",
                            "x": "symbolic evaluation point over the whole domain (all spans, knots, both ends); Dual / Dual2 abscissas carry two variables with symbolic first-order coefficients and a symbolic symmetric second-order block", "types": "3x3 spline-type x abscissa-type table incl. the two refusing combinations", "errors": "site-count mismatches, evaluation before solving",
                            "outside": "symbolic knots or sites; k = 6"},
                    rule="obligation = (layout, aspect); paths = position of x relative to the knots; one validity query per path (linear in the data, polynomial in x)",
                    assumptions=["reals", "concrete layouts make the collocation matrix and its pivoting concrete (the solver itself is C13)"])


def replay(path):
    obj = json.load(open(path))
    print(json.dumps(obj.get("native"), indent=1)[:3000])
    return 1 if obj.get("reproduced") else 0
