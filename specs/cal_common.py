"""Model calendar for C04/C05/C20: an implementor of DateRoll whose three required methods are UNINTERPRETED predicates
of the day number (wk, hol, stl), so one symbolic run covers every week mask, holiday set and settlement calendar.
The provided methods of the trait (roll*, add_bus_days, lag, ...) are the real MIR bodies, run with Self = ModelCal.
`month()` of a symbolic date is abstracted by an uninterpreted 'months since epoch' function constrained, on the window
a run touches, by the facts the checks rely on (non-decreasing, at most one month boundary inside the window)."""
import z3, json, datetime
from vlib import common as C
from specs.dual_common import *
from mirsym.models import Models
from mirsym.models_chrono import EPOCH

WK = z3.Function("wk", z3.IntSort(), z3.BoolSort())
HOL = z3.Function("hol", z3.IntSort(), z3.BoolSort())
STL = z3.Function("stl", z3.IntSort(), z3.BoolSort())
MI = z3.Function("month_index", z3.IntSort(), z3.IntSort())
MODS = ["Act", "F", "ModF", "P", "ModP"]


class CalModels(Models):
    def __init__(self, wk_free=True):
        super().__init__()
        self.wk_free = wk_free      # False: every day is in the working week (non-business days are all holidays)

    def pre_dispatch(self, m, cal, self_ty, args, argtys, destty, env):
        if not self.wk_free and self_ty is not None and self_ty.k == "adt" and self_ty.name == "ModelCal" and cal.method == "is_weekday":
            return True
        if self_ty is not None and self_ty.k == "adt" and self_ty.name == "ModelCal" and cal.method in ("is_weekday", "is_holiday", "is_settlement"):
            d = m.strip(args[1])
            f = {"is_weekday": WK, "is_holiday": HOL, "is_settlement": STL}[cal.method]
            return f(iz(d.day))
        if cal.trait == "Datelike" and cal.method == "month" and args:
            d = m.strip(args[0])
            if isinstance(d, NDT) and is_sym(d.day):
                return MI(d.day) % 12 + 1
        return NotImplemented


def bus(e):
    return z3.And(WK(e), z3.Not(HOL(e)))


def elig(e, settlement):
    return z3.And(bus(e), STL(e)) if settlement else bus(e)


def first_fwd(d, G, pred):
    """least e in d..d+G with pred(e) (d+G if none: excluded by the window assumption)"""
    e = d + G
    for k in range(G - 1, -1, -1):
        e = z3.If(pred(d + k), d + k, e)
    return e


def first_bwd(d, G, pred):
    e = d - G
    for k in range(G - 1, -1, -1):
        e = z3.If(pred(d - k), d - k, e)
    return e


def window_assumptions(m, d, G, W, settlement, wk_free=True):
    """eligible days are at most G apart inside [d-W, d+W]; month index well behaved there"""
    if not wk_free:
        for e in range(-W - G - 1, W + G + 2):
            m.assume(WK(d + e))
    m.assume(d >= W + 10)
    m.assume(d <= 84370 - W - 10)
    for e in range(-W, W + 1):
        m.assume(z3.Or(*[elig(d + e + k, settlement) for k in range(G + 1)]))
        m.assume(z3.Or(*[elig(d + e - k, settlement) for k in range(G + 1)]))
    for e in range(-W - G, W + G):
        m.assume(MI(d + e) <= MI(d + e + 1))
    m.assume(MI(d + W + G) <= MI(d - W - G) + 1)


def modifier_enum(S, name):
    disc = {vn: dd for vn, dd, _ in S.enums["Modifier"]}[name]
    return Enum("Modifier", name, disc, [])


def oracle_roll(d, mod, settlement, G):
    p = lambda e: elig(e, settlement)
    if mod == "Act":
        return d
    f, b = first_fwd(d, G, p), first_bwd(d, G, p)
    if mod == "F":
        return f
    if mod == "P":
        return b
    if mod == "ModF":
        return z3.If(MI(f) == MI(d), f, b)
    return z3.If(MI(b) == MI(d), b, f)


def call_roll(m, cal, date, mod_enum, settlement):
    CT = parse_type("&ModelCal")
    return m.call_text("<ModelCal as DateRoll>::roll", [m.temp_ref(cal), m.temp_ref(date), m.temp_ref(mod_enum), settlement],
                       [CT, parse_type("&NaiveDateTime"), parse_type("&Modifier"), parse_type("bool")], parse_type("NaiveDateTime"))


def concrete_calendar(model, d, lo, hi, real_anchor):
    """turn the model's interpretation of wk/hol/stl on [d+lo, d+hi] into an explicit calendar around a REAL date
    `real_anchor` (day number) that plays the role of d: -> (union calspec, shift)"""
    dv = model.eval(d, model_completion=True).as_long()
    shift = real_anchor - dv
    nonbus, nonstl = [], []
    for e in range(lo, hi + 1):
        w = z3.is_true(model.eval(WK(dv + e), model_completion=True))
        h = z3.is_true(model.eval(HOL(dv + e), model_completion=True))
        s_ = z3.is_true(model.eval(STL(dv + e), model_completion=True))
        if not (w and not h):
            nonbus.append(real_anchor + e)
        if not s_:
            nonstl.append(real_anchor + e)
    spec = {"type": "union", "cals": [{"type": "cal", "holidays": nonbus, "weekmask": []}], "settle": [{"type": "cal", "holidays": nonstl, "weekmask": []}]}
    return spec, shift, dv


def pick_anchor(model, d, lo, hi):
    """a real day number whose month boundaries inside [lo, hi] sit where the model's month index changes"""
    dv = model.eval(d, model_completion=True).as_long()
    mi = [model.eval(MI(dv + e), model_completion=True).as_long() for e in range(lo, hi + 1)]
    cut = None
    for k in range(len(mi) - 1):
        if mi[k + 1] != mi[k]:
            cut = lo + k          # last day of the earlier month is d + cut
            break
    if cut is None:
        return (datetime.date(2024, 7, 16) - EPOCH).days       # mid 31-day month, 15 days either side
    # anchor such that anchor + cut = 2024-01-31 (a month end followed by a 29-day February)
    return (datetime.date(2024, 1, 31) - EPOCH).days - cut
