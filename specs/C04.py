"""C04 — date adjustment lands on the nearest eligible business day in its direction (engine M; K cross-check in thorough)."""
import z3, json
from vlib import common as C
from specs.dual_common import *
from specs.cal_common import *

PID = "C04"


def obligations(G, tier):
    obs = []
    for mod in MODS:
        for st in (False, True):
            obs.append(dict(id=f"roll {mod} settlement={st} gap<={G}", mod=mod, st=st, G=G))
    return obs


def worker(ob):
    P, S = get_world()
    G, mod, st = ob["G"], ob["mod"], ob["st"]
    W = 2 * G + 2

    def harness(m):
        d = z3.Int("d")
        window_assumptions(m, d, G, W, st)
        cal = Struct("ModelCal", [])
        date = NDT(d, 0)
        r1 = call_roll(m, cal, date, modifier_enum(S, mod), st)
        want = oracle_roll(d, mod, st, G)
        props = [("time of day kept", i_cmp("eq", r1.sec, 0)), ("result = oracle", iz(r1.day) == want)]
        if mod != "Act":
            props.append(("result is eligible", elig(iz(r1.day), st)))
        props.append(("eligible input is not moved", z3.Implies(elig(d, st), iz(r1.day) == d)))
        r2 = call_roll(m, cal, r1, modifier_enum(S, mod), st)
        props.append(("adjusting twice = adjusting once", iz(r2.day) == iz(r1.day)))
        chk = Check(m)

        def replay(model):
            anchor = pick_anchor(model, d, -W - G, W + G)
            spec, shift, dv = concrete_calendar(model, d, -W - G - 2, W + G + 2, anchor)
            sc = {"kind": "cal", "cal": spec, "ops": [{"op": "roll", "date": anchor, "modifier": mod, "settlement": st}]}
            out = {"scenario": sc, "mismatch": [], "native": {}, "reproduced": False}
            # independent concrete oracle on the explicit calendar
            nonbus, nonstl = set(spec["cals"][0]["holidays"]), set(spec["settle"][0]["holidays"])
            import datetime as dtm
            from mirsym.models_chrono import EPOCH
            el = lambda e: e not in nonbus and (not st or e not in nonstl)
            mon = lambda e: (EPOCH + dtm.timedelta(days=e)).month
            def fwd(e):
                while not el(e): e += 1
                return e
            def bwd(e):
                while not el(e): e -= 1
                return e
            f, b = fwd(anchor), bwd(anchor)
            want_ = {"Act": anchor, "F": f, "P": b, "ModF": f if mon(f) == mon(anchor) else b, "ModP": b if mon(b) == mon(anchor) else f}[mod]
            for prof in ("dev", "release"):
                o = native_run([sc], prof)[0]
                out["native"][prof] = o
                got = o.get("results", [None])[0]
                if got != want_:
                    out["mismatch"].append(f"{prof}: roll({anchor}, {mod}, settlement={st}) native={got} expected={want_}")
                else:
                    sc2 = {"kind": "cal", "cal": spec, "ops": [{"op": "roll", "date": got, "modifier": mod, "settlement": st}]}
                    g2 = native_run([sc2], prof)[0].get("results", [None])[0]
                    if g2 != got:
                        out["mismatch"].append(f"{prof}: rolling twice {got} -> {g2}")
            out["reproduced"] = bool(out["mismatch"])
            return out
        add_props(chk, props, replay)
        return chk
    return explore_ob(harness, max_paths=20000, max_seconds=2400, models=CalModels())


def run(tier, seed):
    ev = C.Evidence(PID, tier, seed, "model_checking")
    Gs = [3] if tier == "quick" else [3, 5]
    obs = [o for G in Gs for o in obligations(G, tier)]
    results = run_pool(obs, worker, seed=seed)
    tot = summarize(results)
    if tot["panics"]:
        tot["undecided"].append(f"panic leaves: {tot['panics'][:3]}")
    standard_finish(PID, ev, obs, results, tot, lambda f: {"site": f.get("ob", "").split(" gap")[0]},
                    bounds={"calendar": "uninterpreted predicates wk(d), hol(d), stl(d): every week mask / holiday set / settlement calendar at once",
                            "date": "symbolic day number in 1970-2200; month() abstracted by an uninterpreted month index (non-decreasing, at most one boundary in the window)",
                            "gap": f"eligible days at most {Gs} days apart inside the window the run touches (bounds every search loop)", "modifiers": MODS, "settlement": [False, True],
                            "outside": "calendars with longer runs of ineligible days than the gap bound; the real Cal/UnionCal/NamedCal implementors are tied to the predicates by C06; real chrono month arithmetic by C08 (K)"},
                    rule="obligation = (modifier, settlement flag, gap bound); explored into feasible paths over the calendar predicates around the symbolic date; one validity query per path",
                    assumptions=["ModelCal's three required methods are arbitrary predicates of the day", "month() of nearby dates only matters through 'same month or not'"])


def replay(path):
    obj = json.load(open(path))
    print(json.dumps(obj.get("native"), indent=1)[:3000])
    return 1 if obj.get("reproduced") else 0
