"""C05 — business-day arithmetic counts exactly the business days it says it does (engine M, model calendar)."""
import z3, json, datetime as dtm
from vlib import common as C
from specs.dual_common import *
from specs.cal_common import *
from mirsym.machine import RustPanic
from mirsym.models_chrono import EPOCH

PID = "C05"
CT = parse_type("&ModelCal")
DT = parse_type("&NaiveDateTime")


def obligations(tier):
    obs = []
    combos = [(3, 3)] if tier == "quick" else [(3, 3), (2, 6), (4, 3)]
    for G, N in combos:
        for n in range(-N, N + 1):
            for st in (False, True):
                obs.append(dict(id=f"add_bus_days n={n} settlement={st} gap<={G}", kind="abd", n=n, st=st, G=G))
                obs.append(dict(id=f"lag n={n} settlement={st} gap<={G}", kind="lag", n=n, st=st, G=G))
        for n in range(-min(N, 3), min(N, 3) + 1):
            obs.append(dict(id=f"inverse law n={n} gap<={G}", kind="inv", n=n, st=False, G=G))
    for n in (-128, -127, -64, 64, 127):
        for st in (False, True):
            obs.append(dict(id=f"add_bus_days n={n} settlement={st} every day eligible", kind="abd", n=n, st=st, G=0))
    for ln in range(0, 6 if tier == "quick" else 8):
        obs.append(dict(id=f"bus_date_range over {ln + 1} calendar days gap<=3", kind="range", ln=ln, st=False, G=3))
    for n in (-3, -1, 0, 1, 3, 127, -127):
        for mod in ("F", "P", "ModF", "Act"):
            obs.append(dict(id=f"add_days n={n} {mod} gap<=2", kind="add_days", n=n, mod=mod, st=False, G=2))
    return obs


def count_bus(d, lo, hi, upto, direction):
    """number of business days among d+lo..d+hi that are <= upto (forward) or >= upto (backward)"""
    s = z3.IntVal(0)
    for k in range(lo, hi + 1):
        inside = (d + k <= upto) if direction > 0 else (d + k >= upto)
        s = s + z3.If(z3.And(inside, bus(d + k)), 1, 0)
    return s


def worker(ob):
    P, S = get_world()
    G, st, kind = ob["G"], ob["st"], ob["kind"]
    n = ob.get("n", 0)
    span = (abs(n) + 2) * (G + 1) + 2 if kind != "range" else ob["ln"] + 2 * G + 4
    W = span + G + 2
    tier, _ = C.tier_seed()
    wk_free = abs(n) <= (1 if tier == "quick" else 2) or (kind == "range" and ob["ln"] <= 2) or kind == "add_days" or G == 0

    def harness(m):
        d = z3.Int("d")
        window_assumptions(m, d, G, W, st, wk_free)
        cal = Struct("ModelCal", [])
        date = NDT(d, 0)
        chk = Check(m)
        props = []
        try:
            return body(m, d, cal, date, chk, props)
        except RustPanic as e:
            msg = e.msg
            def replay_panic(model, msg=msg):
                anchor = pick_anchor(model, d, -W - G, W + G)
                spec, shift, dv = concrete_calendar(model, d, -W - G - 2, W + G + 2, anchor)
                op = {"abd": "add_bus_days", "inv": "add_bus_days", "lag": "lag", "add_days": "add_days", "range": "bus_date_range"}[kind]
                sc = {"kind": "cal", "cal": spec, "ops": [{"op": op, "date": anchor, "days": n, "settlement": st, "modifier": ob.get("mod", "F"), "end": anchor + ob.get("ln", 0)}]}
                out = {"scenario": sc, "mismatch": [], "native": {}, "reproduced": False, "panic": msg}
                for prof in ("dev", "release"):
                    o = native_run([sc], prof)[0]
                    out["native"][prof] = o
                    r0 = o.get("results", [None])[0]
                    if isinstance(r0, dict) and r0.get("panic"):
                        out["mismatch"].append(f"{prof}: {op}(days={n}) aborts (panic)")
                out["reproduced"] = bool(out["mismatch"])
                return out
            chk.add(f"no abort inside the i8 range: {msg[:100]}", False, replay_panic)
            return chk

    def body(m, d, cal, date, chk, props):
        sc_ops = None
        if kind in ("abd", "lag", "inv"):
            if kind == "lag":
                r = m.call_text("<ModelCal as DateRoll>::lag", [m.temp_ref(cal), m.temp_ref(date), n, st], [CT, DT, parse_type("i8"), parse_type("bool")], parse_type("NaiveDateTime"))
                res = ok(r)
            else:
                res = m.call_text("<ModelCal as DateRoll>::add_bus_days", [m.temp_ref(cal), m.temp_ref(date), n, st], [CT, DT, parse_type("i8"), parse_type("bool")], parse_type("Result<NaiveDateTime, PyErr>"))
            startbus = bus(d)
            if kind != "lag":
                props.append(("Err exactly when the start is not a business day", b_eq(res.variant == "Err", z3.Not(startbus))))
            if res.variant == "Ok":
                r = iz(res.fields[0].day)
                # c = the counted date before the settlement move
                c = z3.Int("c")
                lim = (abs(n) + 1) * (G + 1) + 1
                if n > 0:
                    counted = z3.And(bus(c), c > d, count_bus(d, 1, lim, c, +1) == n)
                elif n < 0:
                    counted = z3.And(bus(c), c < d, count_bus(d, -lim, -1, c, -1) == -n)
                else:
                    counted = (c == d) if kind != "lag" else z3.And(bus(c), c >= d, count_bus(d, 0, lim, c, +1) == 1)
                if kind == "lag" and n != 0:
                    # a business start counts like add_bus_days; a non-business start: the first business day reached counts as 1
                    pass
                if st:
                    fin = first_fwd(c, G, lambda e: elig(e, True)) if n >= 0 else first_bwd(c, G, lambda e: elig(e, True))
                else:
                    fin = c
                # exists-unique c: state as  forall c. counted(c) => r == fin(c), plus existence is implied by the gap assumption
                m2 = z3.Implies(z3.And(c >= d - lim, c <= d + lim, counted), r == fin)
                props.append(("result = |n| business days counted from the start (result counted, start not), then moved to a settlement day", ("forall", c, m2)))
                props.append(("result is a business day", bus(r)))
                if st:
                    props.append(("result can settle", STL(r)))
                if kind == "inv":
                    back = m.call_text("<ModelCal as DateRoll>::add_bus_days", [m.temp_ref(cal), m.temp_ref(res.fields[0]), -n, False], [CT, DT, parse_type("i8"), parse_type("bool")], parse_type("Result<NaiveDateTime, PyErr>"))
                    props.append(("adding -n returns to the start", back.variant == "Ok" and i_cmp("eq", back.fields[0].day, d)))
            sc_ops = lambda a: [{"op": "lag" if kind == "lag" else "add_bus_days", "date": a, "days": n, "settlement": st}] + \
                               ([{"op": "add_bus_days_back", "days": -n}] if kind == "inv" else [])
        elif kind == "range":
            ln = ob["ln"]
            e_ = NDT(d + ln, 0)
            res = m.call_text("<ModelCal as DateRoll>::bus_date_range", [m.temp_ref(cal), m.temp_ref(date), m.temp_ref(e_)], [CT, DT, DT], parse_type("Result<Vec<NaiveDateTime>, PyErr>"))
            both = z3.And(bus(d), bus(d + ln))
            props.append(("Err exactly when an end point is not a business day", b_eq(res.variant == "Err", z3.Not(both))))
            if res.variant == "Ok":
                items = [iz(x.day) for x in res.fields[0].items]
                # exactly the business days of [d, d+ln], in order
                for k in range(ln + 1):
                    member = z3.Or(*[it == d + k for it in items]) if items else z3.BoolVal(False)
                    props.append((f"day +{k} listed iff business day", member == bus(d + k)))
                for a_, b_ in zip(items, items[1:]):
                    props.append(("strictly increasing", a_ < b_))
                for it in items:
                    props.append(("inside the range", z3.And(it >= d, it <= d + ln)))
            sc_ops = lambda a: [{"op": "bus_date_range", "date": a, "end": a + ob["ln"]}]
        else:
            mod = ob["mod"]
            r = m.call_text("<ModelCal as DateRoll>::add_days", [m.temp_ref(cal), m.temp_ref(date), n, m.temp_ref(modifier_enum(S, mod)), st],
                            [CT, DT, parse_type("i8"), parse_type("&Modifier"), parse_type("bool")], parse_type("NaiveDateTime"))
            props.append(("add_days = adjust(date + n)", iz(r.day) == oracle_roll(d + n, mod, st, G)))
            sc_ops = lambda a: [{"op": "add_days", "date": a, "days": n, "modifier": mod, "settlement": st}]

        def replay(model):
            anchor = pick_anchor(model, d, -W - G, W + G)
            spec, shift, dv = concrete_calendar(model, d, -W - G - 2, W + G + 2, anchor)
            nonbus, nonstl = set(spec["cals"][0]["holidays"]), set(spec["settle"][0]["holidays"])
            isb = lambda e: e not in nonbus
            iss = lambda e: e not in nonstl
            mon = lambda e: (EPOCH + dtm.timedelta(days=e)).month
            ops = [o for o in sc_ops(anchor) if o["op"] != "add_bus_days_back"]
            sc = {"kind": "cal", "cal": spec, "ops": ops}
            out = {"scenario": sc, "mismatch": [], "native": {}, "reproduced": False}
            def settle(e, dirn):
                while not (isb(e) and iss(e)): e += dirn
                return e
            def count_from(start, k):
                e = start
                step = 1 if k > 0 else -1
                for _ in range(abs(k)):
                    e += step
                    while not isb(e): e += step
                return e
            def want_abd(start, k, stt):
                if not isb(start): return {"err": True}
                e = count_from(start, k)
                return settle(e, 1 if k >= 0 else -1) if stt else e
            for prof in ("dev", "release"):
                o = native_run([sc], prof)[0]
                out["native"][prof] = o
                got = o.get("results", [None])[0]
                if kind in ("abd", "inv"):
                    w = want_abd(anchor, n, st)
                    if got != w:
                        out["mismatch"].append(f"{prof}: add_bus_days({anchor},{n},{st}) native={got} expected={w}")
                    elif kind == "inv" and isinstance(got, int):
                        g2 = native_run([{"kind": "cal", "cal": spec, "ops": [{"op": "add_bus_days", "date": got, "days": -n, "settlement": False}]}], prof)[0]["results"][0]
                        if g2 != anchor:
                            out["mismatch"].append(f"{prof}: inverse law: back at {g2} instead of {anchor}")
                elif kind == "lag":
                    if isb(anchor):
                        w = want_abd(anchor, n, st)
                    elif n == 0:
                        e = anchor
                        while not isb(e): e += 1
                        w = settle(e, 1) if st else e
                    else:
                        stp = 1 if n > 0 else -1
                        e = anchor
                        while not isb(e): e += stp
                        e = count_from(e, n - stp)
                        w = settle(e, stp) if st else e
                    if got != w:
                        out["mismatch"].append(f"{prof}: lag({anchor},{n},{st}) native={got} expected={w}")
                elif kind == "range":
                    a, b = anchor, anchor + ob["ln"]
                    w = [e for e in range(a, b + 1) if isb(e)] if isb(a) and isb(b) else {"err": True}
                    if got != w:
                        out["mismatch"].append(f"{prof}: bus_date_range native={got} expected={w}")
                else:
                    e0 = anchor + n
                    el = lambda e: isb(e) and (not st or iss(e))
                    f = e0
                    while not el(f): f += 1
                    b = e0
                    while not el(b): b -= 1
                    w = {"Act": e0, "F": f, "P": b, "ModF": f if mon(f) == mon(e0) else b, "ModP": b if mon(b) == mon(e0) else f}[ob["mod"]]
                    if got != w:
                        out["mismatch"].append(f"{prof}: add_days native={got} expected={w}")
            out["reproduced"] = bool(out["mismatch"])
            return out
        # quantified clause: instantiate by asking validity of  counted(c) => r == fin  with c free (free = universally quantified in a validity query)
        flat = []
        for dsc, p in props:
            if isinstance(p, tuple) and p[0] == "forall":
                flat.append((dsc, p[2]))
            else:
                flat.append((dsc, p))
        add_props(chk, flat, replay)
        return chk
    return explore_ob(harness, max_paths=30000, max_seconds=1200 if tier == 'quick' else 6000, models=CalModels(wk_free))


def run(tier, seed):
    ev = C.Evidence(PID, tier, seed, "model_checking")
    obs = obligations(tier)
    results = run_pool(obs, worker, seed=seed)
    tot = summarize(results)
    # panics inside the i8 range are violations of the totality part (C20) and of this property alike: report them with role
    fails_from_panics = [p for p in tot["panics"]]
    if fails_from_panics:
        tot["undecided"].append(f"panic leaves (see C20 for totality): {fails_from_panics[:3]}")
    standard_finish(PID, ev, obs, results, tot, lambda f: {"site": f.get("ob", "").split(" n=")[0].split(" over")[0]},
                    bounds={"calendar": "uninterpreted wk/hol/stl predicates (every calendar at once); for |n| >= 2 (quick) / >= 3 (thorough) the week-mask predicate is fixed to 'every weekday works' (non-business days are then all holidays - the same business-day predicate space, fewer duplicate paths)", "date": "symbolic day 1970-2200",
                            "day_count": "n in -3..3 with gap<=3 (quick); also -6..6 gap<=2 and -3..3 gap<=4 (thorough); n in {-128,-127,-64,64,127} on calendars where every day is eligible",
                            "range": "bus_date_range over 1..6 (quick) / 1..8 calendar days", "add_days": "n in {-127,-3,-1,0,1,3,127} x {F,P,ModF,Act}",
                            "outside": "larger |n| with ineligible days in between: follows by induction on the loop counter from the checked step (the loop body is one roll of C04); longer gaps"},
                    rule="obligation = (function, concrete day count, settlement flag, gap bound); explored into feasible paths over the calendar predicates; the counting clause is a validity query with a universally quantified witness date",
                    assumptions=["ModelCal predicates arbitrary", "gap bound on ineligible runs inside the window"])


def replay(path):
    obj = json.load(open(path))
    print(json.dumps(obj.get("native"), indent=1)[:3000])
    return 1 if obj.get("reproduced") else 0
