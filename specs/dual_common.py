"""Shared harness machinery for the dual-number properties (C01 C02 C03 C17 C18 C19): symbolic Dual/Dual2
construction with symbolic variable NAMES, name-indexed read-back, oracle formulas, obligation runner with
native replay of counterexamples."""
import json, math, os, subprocess, sys, time, itertools, random
from fractions import Fraction
import z3
from vlib import common as C
from mirsym.explore import world, explore
from mirsym.machine import Machine, RustPanic, Unsupported
from mirsym.values import *
from mirsym.sym import *
from mirsym.types import parse_type, show, deref_ty, Ty
from mirsym.models import Models

MIR = None


def get_world():
    global MIR
    if MIR is None:
        MIR = C.mir_dump()
    return world(MIR, C.REPO)


DUAL_T, DUAL2_T, F64_T = parse_type("Dual"), parse_type("Dual2"), parse_type("f64")


# ------------------------------------------------------------------ symbolic inputs
def mk_names(m, tag, n):
    ids = [z3.Int(f"{tag}_n{i}") for i in range(n)]
    for i in range(n):
        m.assume(ids[i] >= 0)
        m.assume(ids[i] <= 19)
        for j in range(i):
            m.assume(ids[i] != ids[j])
    return [Atom(x, f"{tag}_n{i}") for i, x in enumerate(ids)]


def mk_dual(m, S, tag, names, order=1, arc=None, inputs=None):
    n = len(names)
    real = z3.Real(f"{tag}_r")
    dual = [z3.Real(f"{tag}_d{i}") for i in range(n)]
    by = {"real": F(real), "vars": arc if arc is not None else m.new_arc(SetV(names)), "dual": Nd((n,), [F(x) for x in dual])}
    rec = {"tag": tag, "order": order, "real": real, "names": [a.id for a in names], "dual": dual}
    if order == 2:
        h = {}
        data = []
        for i in range(n):
            for j in range(n):
                k = (min(i, j), max(i, j))
                if k not in h:
                    h[k] = z3.Real(f"{tag}_h{k[0]}{k[1]}")
                data.append(F(h[k]))
        by["dual2"] = Nd((n, n), data)
        rec["dual2"] = [[h[(min(i, j), max(i, j))] for j in range(n)] for i in range(n)]
    name = "Dual" if order == 1 else "Dual2"
    if inputs is not None:
        inputs.append(rec)
    return Struct(name, [by[f] for f in S.structs[name]])


def parts(S, d):
    d = d if isinstance(d, Struct) else None
    return dict(zip(S.structs[d.name], d.fields))


def names_of(S, d):
    p = parts(S, d)
    return [a.id for a in p["vars"].v.items]


def coef1(S, d, v):
    """derivative w.r.t. the variable NAMED v, as an F (0 when absent)"""
    p = parts(S, d)
    ns = [a.id for a in p["vars"].v.items]
    e = F(0)
    for n_, x in zip(ns, p["dual"].data):
        e = fr_bin("add", e, fr_ite(simp_bool(iz(n_) == iz(v)), x, F(0)))
    return e


def coef2(S, d, v, w):
    """second derivative d2/dv dw = 2 * dual2[v][w], as an F"""
    p = parts(S, d)
    ns = [a.id for a in p["vars"].v.items]
    n = len(ns)
    e = F(0)
    for i in range(n):
        for j in range(n):
            c = simp_bool(z3.And(iz(ns[i]) == iz(v), iz(ns[j]) == iz(w)))
            e = fr_bin("add", e, fr_ite(c, fr_bin("mul", F(2), p["dual2"].data[i * n + j]), F(0)))
    return e


def shape_ok(S, d):
    """python-level shape invariant: len(dual) == |vars| (and dual2 square of that size)"""
    p = parts(S, d)
    n = len(p["vars"].v.items)
    ok_ = p["dual"].shape == (n,)
    if "dual2" in p:
        ok_ = ok_ and p["dual2"].shape == (n, n)
    return ok_


def distinct_names(S, d):
    ns = names_of(S, d)
    c = True
    for i in range(len(ns)):
        for j in range(i):
            c = b_and(c, b_not(i_cmp("eq", ns[i], ns[j])))
    return c


def union_exact(S, res, ins):
    """vars(res) == union of the input name lists (as sets), no duplicates"""
    rn = names_of(S, res)
    allin = [x for d in ins for x in d]
    c = distinct_names(S, res)
    for a in allin:
        h = False
        for r in rn:
            h = b_or(h, i_cmp("eq", r, a))
        c = b_and(c, h)
    for r in rn:
        h = False
        for a in allin:
            h = b_or(h, i_cmp("eq", r, a))
        c = b_and(c, h)
    return c


# ------------------------------------------------------------------ model extraction / float evaluation
def mval(model, e):
    v = model.eval(e, model_completion=True)
    if z3.is_int_value(v):
        return v.as_long()
    if z3.is_rational_value(v):
        return Fraction(v.numerator_as_long(), v.denominator_as_long())
    if z3.is_algebraic_value(v):
        a = v.approx(20)
        return Fraction(a.numerator_as_long(), a.denominator_as_long())
    if z3.is_true(v):
        return True
    if z3.is_false(v):
        return False
    raise ValueError(f"cannot evaluate {e} -> {v}")


def phi(x):
    return 0.5 * math.erfc(-x / math.sqrt(2))


def phi_inv(p):
    # Acklam + one Halley step; enough for 1e-9 comparisons away from the tails
    lo, hi = -40.0, 40.0
    for _ in range(200):
        mid = (lo + hi) / 2
        if phi(mid) < p:
            lo = mid
        else:
            hi = mid
    return (lo + hi) / 2


def zeval(e, env):
    """evaluate a z3 arithmetic/boolean expression in floating point with TRUE transcendental functions.
    env: dict z3-var-name -> float/int.  Unknown symbols raise KeyError."""
    if z3.is_int_value(e):
        return e.as_long()
    if z3.is_rational_value(e):
        return e.numerator_as_long() / e.denominator_as_long()
    if z3.is_true(e):
        return True
    if z3.is_false(e):
        return False
    k = e.decl().kind()
    ch = [zeval(c, env) for c in e.children()] if k not in (z3.Z3_OP_ITE,) else None
    if k == z3.Z3_OP_UNINTERPRETED:
        nm = e.decl().name()
        if e.num_args() == 0:
            if nm == "PI":
                return math.pi
            return env[nm]
        if nm == "exp": return math.exp(ch[0])
        if nm == "ln": return math.log(ch[0])
        if nm == "sqrt": return math.sqrt(ch[0])
        if nm == "pow": return math.pow(ch[0], ch[1])
        if nm == "Phi": return phi(ch[0])
        if nm == "PhiInv": return phi_inv(ch[0])
        raise KeyError(nm)
    if k == z3.Z3_OP_ADD: return sum(ch)
    if k == z3.Z3_OP_MUL:
        r = 1
        for c in ch:
            r *= c
        return r
    if k == z3.Z3_OP_SUB:
        r = ch[0]
        for c in ch[1:]:
            r -= c
        return r
    if k == z3.Z3_OP_UMINUS: return -ch[0]
    if k == z3.Z3_OP_DIV: return ch[0] / ch[1]
    if k == z3.Z3_OP_IDIV: return ch[0] // ch[1]
    if k == z3.Z3_OP_MOD: return ch[0] % ch[1]
    if k == z3.Z3_OP_TO_REAL: return ch[0]
    if k == z3.Z3_OP_TO_INT: return math.floor(ch[0])
    if k == z3.Z3_OP_POWER: return ch[0] ** ch[1]
    if k == z3.Z3_OP_ITE:
        c = zeval(e.arg(0), env)
        return zeval(e.arg(1), env) if c else zeval(e.arg(2), env)
    if k == z3.Z3_OP_EQ: return ch[0] == ch[1]
    if k == z3.Z3_OP_DISTINCT: return len(set(ch)) == len(ch)
    if k == z3.Z3_OP_LE: return ch[0] <= ch[1]
    if k == z3.Z3_OP_LT: return ch[0] < ch[1]
    if k == z3.Z3_OP_GE: return ch[0] >= ch[1]
    if k == z3.Z3_OP_GT: return ch[0] > ch[1]
    if k == z3.Z3_OP_AND: return all(ch)
    if k == z3.Z3_OP_OR: return any(ch)
    if k == z3.Z3_OP_NOT: return not ch[0]
    if k == z3.Z3_OP_IMPLIES: return (not ch[0]) or ch[1]
    raise KeyError(f"op {e.decl().name()}")


def input_env(model, inputs, extra=()):
    """float environment of all input variables under the model"""
    env = {}
    def put(v):
        if is_sym(v):
            val = mval(model, v)
            env[str(v)] = float(val) if isinstance(val, Fraction) else val
    for rec in inputs:
        put(rec["real"])
        for x in rec["names"]:
            put(x)
        for x in rec["dual"]:
            put(x)
        for row in rec.get("dual2", []):
            for x in row:
                put(x)
    for x in extra:
        put(x)
    return env


def rec_json(rec, env):
    g = lambda v: env[str(v)] if is_sym(v) else (float(v) if isinstance(v, Fraction) else v)
    j = {"real": g(rec["real"]), "vars": [g(x) for x in rec["names"]], "dual": [g(x) for x in rec["dual"]]}
    if "dual2" in rec:
        j["dual2"] = [g(x) for row in rec["dual2"] for x in row]
    return j


_REPLAY_EXE = {}


def replay_exe(profile="dev"):
    if profile in _REPLAY_EXE:
        return _REPLAY_EXE[profile]
    d = C.crate_dir("replay")
    try:
        import shutil
        if open(os.path.join(C.REPO, "Cargo.lock"), "rb").read() != open(os.path.join(d, "Cargo.lock"), "rb").read():
            shutil.copy(os.path.join(C.REPO, "Cargo.lock"), os.path.join(d, "Cargo.lock"))
    except OSError:
        pass
    tdir = os.path.join(C.WORK, "replay2-target")
    cmd = ["cargo", "build", "--offline", "--target-dir", tdir] + (["--release"] if profile == "release" else [])
    rc, out, _ = C.sh(cmd, cwd=d, timeout=1800)
    if rc != 0:
        raise C.BuildError("native replay crate does not build:\n" + out[-3000:])
    exe = os.path.join(tdir, "release" if profile == "release" else "debug", "vreplay")
    _REPLAY_EXE[profile] = exe
    return exe


def native_run(scenarios, profile="dev"):
    exe = replay_exe(profile)
    import tempfile
    with tempfile.NamedTemporaryFile("w", suffix=".json", dir=C.WORK, delete=False) as f:
        json.dump(scenarios, f)
        p = f.name
    try:
        rc, out, _ = C.sh([exe, p], timeout=120)
    finally:
        os.unlink(p)
    for line in reversed(out.splitlines()):
        line = line.strip()
        if line.startswith("["):
            return json.loads(line)
    if rc != 0 and len(scenarios) == 1:
        # the process itself died (stack overflow / abort): that IS an abort of the code under test
        return [{"panic": True, "msg": f"replay process died (exit status {rc}): " + out[-200:]}]
    raise RuntimeError("native replay gave no output: " + out[-500:])


def close(a, b, tol=1e-8):
    if isinstance(a, bool) or isinstance(b, bool):
        return a == b
    if a is None or b is None:   # serde_json prints NaN/inf as null
        return False
    if a != a or b != b:      # NaN
        return False
    return abs(a - b) <= tol * max(1.0, abs(a), abs(b))


def native_coef1(obs, name):
    for n_, x in zip(obs["vars"], obs["dual"]):
        if n_ == f"v{name}":
            return x
    return 0.0


def native_coef2(obs, v, w):
    n = len(obs["vars"])
    for i in range(n):
        for j in range(n):
            if obs["vars"][i] == f"v{v}" and obs["vars"][j] == f"v{w}":
                return 2.0 * obs["dual2"][i * n + j]
    return 0.0


# ------------------------------------------------------------------ obligation runner
def run_pool(obligations, worker, jobs=None, seed=0, deadline_s=None):
    """run worker(ob) for each obligation, EACH IN ITS OWN forked process (at most `jobs` at a time); returns the list of
    result dicts in input order.  One process per obligation makes the verdict of an obligation independent of which
    obligations happened to run before it in the same process (z3's global term table and heuristics are history
    dependent: with a shared worker the order, and so VERIF_SEED, changed verdicts of hard queries).
    A crashed worker or an exhausted deadline yields {'error': ...} entries (reported as undecided), never a hang."""
    import pickle, select, signal
    get_world()          # dump MIR + load once in the parent so children inherit it
    replay_exe("dev")
    jobs = jobs or int(os.environ.get("VERIF_JOBS", "0")) or min(C.NCPU, 14)
    order = list(range(len(obligations)))
    if seed:
        random.Random(seed).shuffle(order)
    tier, _ = C.tier_seed()
    deadline_s = deadline_s or (1500 if tier == "quick" else 12000)
    out = [None] * len(obligations)
    t0 = time.time()
    w_ = _Wrap(worker)
    pending = list(order)
    running = {}            # read fd -> [index, pid, buffer]
    sys.stdout.flush(); sys.stderr.flush()
    try:
        while pending or running:
            while pending and len(running) < jobs:
                i = pending.pop(0)
                rfd, wfd = os.pipe()
                pid = os.fork()
                if pid == 0:
                    code = 0
                    try:
                        os.close(rfd)
                        for fd_ in list(running):
                            try: os.close(fd_)
                            except OSError: pass
                        res = w_(obligations[i])
                        data = pickle.dumps(res)
                        with os.fdopen(wfd, "wb") as f:
                            f.write(data)
                    except BaseException:
                        code = 1
                    finally:
                        os._exit(code)
                os.close(wfd)
                os.set_blocking(rfd, False)
                running[rfd] = [i, pid, bytearray()]
            left = deadline_s - (time.time() - t0)
            if left <= 0:
                break
            ready, _, _ = select.select(list(running), [], [], min(1.0, left))
            for rfd in ready:
                ent = running[rfd]
                try:
                    chunk = os.read(rfd, 1 << 20)
                except BlockingIOError:
                    continue
                if chunk:
                    ent[2] += chunk
                    continue
                os.close(rfd)
                del running[rfd]
                try:
                    os.waitpid(ent[1], 0)
                except ChildProcessError:
                    pass
                i = ent[0]
                try:
                    out[i] = pickle.loads(bytes(ent[2]))
                except Exception:
                    out[i] = {"ob": obligations[i].get("id"), "error": "worker process died"}
    finally:
        for rfd, ent in list(running.items()):
            try: os.kill(ent[1], signal.SIGKILL)
            except OSError: pass
            try: os.waitpid(ent[1], 0)
            except OSError: pass
            try: os.close(rfd)
            except OSError: pass
    for i in range(len(obligations)):
        if out[i] is None:
            out[i] = {"ob": obligations[i].get("id"), "error": f"not finished within the {deadline_s}s deadline of this tier (undecided)"}
    return out


class _Wrap:
    def __init__(self, f):
        self.f = f

    def __call__(self, ob):
        import traceback
        t0 = time.time()
        try:
            r = self.f(ob)
        except Exception:
            r = {"ob": ob.get("id"), "error": traceback.format_exc(limit=8)}
        r.setdefault("ob", ob.get("id"))
        r["wall_s"] = round(time.time() - t0, 2)
        return r


def _to_sympy(e, cache):
    """z3 arithmetic term -> sympy expression; uninterpreted applications become sympy functions of their CANONICALISED
    arguments (cancel(together(.))), so equal rational arguments give the same atom.  Raises ValueError on anything else."""
    import sympy
    k = e.get_id()
    if k in cache:
        return cache[k]
    if z3.is_rational_value(e):
        r = sympy.Rational(e.numerator_as_long(), e.denominator_as_long())
    elif z3.is_int_value(e):
        r = sympy.Integer(e.as_long())
    elif z3.is_app(e):
        dk = e.decl().kind()
        ch = e.children()
        if dk == z3.Z3_OP_ADD:
            r = sympy.Add(*[_to_sympy(c, cache) for c in ch])
        elif dk == z3.Z3_OP_MUL:
            r = sympy.Mul(*[_to_sympy(c, cache) for c in ch])
        elif dk == z3.Z3_OP_SUB:
            xs = [_to_sympy(c, cache) for c in ch]
            r = xs[0] - sympy.Add(*xs[1:])
        elif dk == z3.Z3_OP_UMINUS:
            r = -_to_sympy(ch[0], cache)
        elif dk in (z3.Z3_OP_DIV, z3.Z3_OP_IDIV) and dk == z3.Z3_OP_DIV:
            r = _to_sympy(ch[0], cache) / _to_sympy(ch[1], cache)
        elif dk == z3.Z3_OP_POWER and z3.is_int_value(ch[1]) or (dk == z3.Z3_OP_POWER and z3.is_rational_value(ch[1]) and ch[1].denominator_as_long() == 1):
            r = _to_sympy(ch[0], cache) ** int(str(ch[1]).split("/")[0])
        elif dk == z3.Z3_OP_TO_REAL:
            r = _to_sympy(ch[0], cache)
        elif dk == z3.Z3_OP_UNINTERPRETED:
            if not ch:
                r = sympy.Symbol("c_" + e.decl().name() + ("_i" if z3.is_int(e) else ""))
            else:
                args = [sympy.cancel(sympy.together(_to_sympy(c, cache))) for c in ch]
                r = sympy.Function("f_" + e.decl().name())(*args)
        else:
            raise ValueError("not a ring term: " + e.decl().name())
    else:
        raise ValueError("not a ring term")
    cache[k] = r
    return r


def poly_zero(d, budget_s=30):
    """is the z3 arithmetic term d identically zero as a rational function of its atoms?  (exact, via sympy; None = not decided)"""
    import sympy, signal, threading

    class _TO(Exception):
        pass

    def _alarm(*_):
        raise _TO()
    use_alarm = threading.current_thread() is threading.main_thread()
    old = None
    try:
        if use_alarm:
            old = signal.signal(signal.SIGALRM, _alarm)
            signal.setitimer(signal.ITIMER_REAL, budget_s)
        ex = _to_sympy(d, {})
        num, _ = sympy.fraction(sympy.together(ex))
        return sympy.expand(num) == 0
    except (ValueError, RecursionError, OverflowError, _TO):
        return None
    finally:
        if use_alarm:
            signal.setitimer(signal.ITIMER_REAL, 0)
            if old is not None:
                signal.signal(signal.SIGALRM, old)


def nf_valid(p, depth=0):
    """sound syntactic proof attempt: the formula is valid if every arithmetic equality in positive position reduces to
    0 == 0 in z3's sum-of-monomials normal form (uninterpreted applications are atoms)"""
    if not is_sym(p):
        return bool(p)
    if z3.is_true(p):
        return True
    if z3.is_and(p):
        return all(nf_valid(c, depth + 1) for c in p.children())
    if z3.is_implies(p):
        return nf_valid(p.arg(1), depth + 1)
    if z3.is_app(p) and p.decl().kind() == z3.Z3_OP_ITE and z3.is_bool(p):
        return nf_valid(p.arg(1), depth + 1) and nf_valid(p.arg(2), depth + 1)
    if z3.is_eq(p) and z3.is_arith(p.arg(0)):
        try:
            r = z3.simplify(p.arg(0) - p.arg(1), som=True, flat=True, sort_sums=True)
        except z3.Z3Exception:
            return False
        if z3.is_rational_value(r):
            return r.numerator_as_long() == 0
        # z3's normal form does not always cancel (integer->real coercions, atoms with equal but differently written
        # arguments): second, exact attempt with sympy on the same term
        return poly_zero(p.arg(0) - p.arg(1)) is True
    return False


class Check:
    """collects checks on one path: each check = (description, z3 property, replay closure)"""
    def __init__(self, m):
        self.m = m
        self.items = []
        self.nice = []        # optional extra constraints describing a well-conditioned counterexample (tried first for the replay)

    def add(self, desc, prop, on_fail=None):
        self.items.append((desc, prop, on_fail))

    def add_soft(self, desc, structurally_exact, on_fail):
        """a FLOAT-EXACTNESS clause that real arithmetic cannot decide: `structurally_exact` (python bool) says whether the two
        values are produced by the same floating-point operations (term identity / no operation at all).  True: holds.
        False: the values are equal over the reals but computed differently, so they MAY differ in the last bit: on_fail
        replays a fixed pool of awkward doubles natively; only a reproduced difference is reported (a violation with its
        witness), otherwise the clause is recorded as 'not confirmed' and does not count against the code."""
        self.items.append((desc, ("SOFT", bool(structurally_exact)), on_fail))

    def discharge(self, timeout_ms=20000):
        out = {"checks": 0, "holds": 0, "fails": [], "unknown": [], "solver_s": 0.0}
        for desc, prop, on_fail in self.items:
            t0 = time.time()
            if isinstance(prop, str) and prop == "UNKNOWN":
                out["checks"] += 1; out["unknown"].append(desc); continue
            if isinstance(prop, tuple) and prop and prop[0] == "SOFT":
                out["checks"] += 1
                if prop[1]:
                    out["holds"] += 1; continue
                _, model = self.m.check(z3.BoolVal(False), timeout_ms)      # any model of the path
                rec = {"desc": desc}
                try:
                    rec.update(on_fail(model))
                except Exception:
                    import traceback
                    rec["replay_error"] = traceback.format_exc(limit=4)
                if rec.get("reproduced"):
                    out["fails"].append(rec)
                else:
                    out["holds"] += 1
                    out.setdefault("notes", []).append(f"float-exactness not structurally evident and no witness in the pool: {desc}")
                continue
            if is_sym(prop) and z3.is_and(prop) and prop.num_args() > 1:
                # clauses that are polynomial identities are discharged by the sum-of-monomials normal form; only the rest go to the solver
                rest = [ch for ch in prop.children() if not nf_valid(ch)]
                out["nf_clauses"] = out.get("nf_clauses", 0) + prop.num_args() - len(rest)
                prop = z3.And(*rest) if len(rest) > 1 else rest[0] if rest else True
            r, model = self.m.check(prop, timeout_ms)
            out["checks"] += 1
            if r == "unknown" and is_sym(prop) and z3.is_and(prop) and prop.num_args() > 1:
                # the conjunction was too much at once: decide the clauses one by one (normal-form proof first)
                sub = [("holds", None) if nf_valid(ch) else self.m.check(ch, timeout_ms * 3) for ch in prop.children()]
                if all(x[0] == "holds" for x in sub):
                    r = "holds"
                elif any(x[0] == "fails" for x in sub):
                    r, model = "fails", next(x[1] for x in sub if x[0] == "fails")
            dt_ = time.time() - t0
            out["solver_s"] += dt_
            if dt_ > 2.0:
                out.setdefault("slow", []).append((round(dt_, 1), r, desc[:140]))
            if r == "holds":
                out["holds"] += 1
            elif r == "unknown":
                out["unknown"].append(desc)
            else:
                rec = {"desc": desc}
                if self.nice and on_fail is not None and is_sym(prop):
                    self.m.solver.push()
                    for c_ in self.nice:
                        self.m.solver.add(c_)
                    r2, model2 = self.m.check(prop, timeout_ms)
                    self.m.solver.pop()
                    if r2 == "fails":
                        model = model2
                if on_fail is not None:
                    try:
                        rec.update(on_fail(model))
                    except Exception as e:
                        import traceback
                        rec["replay_error"] = traceback.format_exc(limit=4)
                out["fails"].append(rec)
        return out


def merge(acc, r):
    for k in ("checks", "holds"):
        acc[k] = acc.get(k, 0) + r[k]
    acc["solver_s"] = acc.get("solver_s", 0.0) + r["solver_s"]
    acc.setdefault("fails", []).extend(r["fails"])
    acc.setdefault("unknown", []).extend(r["unknown"])
    if r.get("notes"):
        acc.setdefault("notes", []).extend(r["notes"])
    if r.get("slow"):
        acc.setdefault("slow", []).extend(r["slow"])


def summarize(results):
    """aggregate worker results -> totals + lists"""
    tot = {"obligations": len(results), "paths": 0, "checks": 0, "holds": 0, "solver_s": 0.0, "feas_checks": 0,
           "fails": [], "unknown": [], "undecided": [], "panics": [], "fns": set(), "models": set(), "axioms": set()}
    for r in results:
        if r is None:
            tot["undecided"].append("worker died"); continue
        if "error" in r:
            tot["undecided"].append(f"{r.get('ob')}: internal error {r['error'][-400:]}"); continue
        tot["paths"] += r.get("paths", 0)
        tot["checks"] += r.get("checks", 0); tot["holds"] += r.get("holds", 0)
        tot["solver_s"] += r.get("solver_s", 0.0); tot["feas_checks"] += r.get("feas_checks", 0)
        for f in r.get("fails", []):
            f["ob"] = r.get("ob"); tot["fails"].append(f)
        for u in r.get("unknown", []):
            tot["unknown"].append(f"{r.get('ob')}: {u}")
        for u in r.get("undecided", []):
            tot["undecided"].append(f"{r.get('ob')}: {u[:300]}")
        for p in r.get("panics", []):
            tot["panics"].append(f"{r.get('ob')}: {p}")
        tot["fns"] |= set(r.get("fns", [])); tot["models"] |= set(r.get("models", [])); tot["axioms"] |= set(r.get("axioms", []))
        for sl in r.get("slow", []):
            tot.setdefault("slow", []).append((sl[0], sl[1], f"{r.get('ob')}: {sl[2]}"))
        for nt in r.get("notes", []):
            tot.setdefault("notes", []).append(f"{r.get('ob')}: {nt}")
    tot["slow"] = sorted(tot.get("slow", []), reverse=True)[:12]
    return tot


def explore_ob(harness, max_paths=4000, max_seconds=900, models=None, **mkw):
    """explore all paths of `harness(m) -> Check | None`; returns a worker result dict"""
    P, S = get_world()
    acc = {"checks": 0, "holds": 0, "solver_s": 0.0, "fails": [], "unknown": []}

    def h(m):
        chk = harness(m)
        if chk is not None:
            merge(acc, chk.discharge())
        return None
    res = explore(P, S, h, models=models, max_paths=max_paths, max_seconds=max_seconds, **mkw)
    st = res["stats"]
    acc.update(paths=st["paths"], feas_checks=st["feas_checks"], undecided=list(res["undecided"]),
               panics=[l.detail for l in res["leaves"] if l.kind == "panic"],
               fns=sorted(st["fns_run"]), models=sorted(st["models_used"]), axioms=sorted(st["axioms"]),
               leaf_kinds={k: sum(1 for l in res["leaves"] if l.kind == k) for k in set(l.kind for l in res["leaves"])})
    return acc


def same_by_name(S, x, y, names, order):
    c = fr_eq(parts(S, x)["real"], parts(S, y)["real"])
    for v in names:
        c = z3.And(c, fr_eq(coef1(S, x, v), coef1(S, y, v)))
    if order == 2:
        for v in names:
            for w in names:
                c = z3.And(c, fr_eq(coef2(S, x, v, w), coef2(S, y, v, w)))
    return c


def add_props(chk, props, replay):
    pyfail = [d for d, p in props if p is False]
    zs = [p for d, p in props if is_sym(p)]
    if pyfail:
        chk.add("; ".join(pyfail), False, replay)
    else:
        chk.add("all clauses (" + "; ".join(d for d, _ in props[:8]) + (" ..." if len(props) > 8 else "") + ")", z3.And(*zs) if zs else True, replay)


def jc1(j, v):
    v = v if isinstance(v, str) else f"v{v}"
    vs = [x if isinstance(x, str) else f"v{x}" for x in j["vars"]]
    for n_, x in zip(vs, j["dual"]):
        if n_ == v:
            return x
    return 0.0


def jc2(j, v, w):
    v = v if isinstance(v, str) else f"v{v}"
    w = w if isinstance(w, str) else f"v{w}"
    vs = [x if isinstance(x, str) else f"v{x}" for x in j["vars"]]
    n = len(vs)
    for p in range(n):
        for q in range(n):
            if vs[p] == v and vs[q] == w:
                return 2 * j["dual2"][p * n + q]
    return 0.0


def json_same_by_name(x, y, order, names=None):
    """list of differences between two dual-number JSON records compared per name"""
    out = []
    vs = set(a if isinstance(a, str) else f"v{a}" for a in x["vars"]) | set(a if isinstance(a, str) else f"v{a}" for a in y["vars"])
    if names:
        vs |= set(names)
    if not close(x["real"], y["real"]):
        out.append(f"real {x['real']} vs {y['real']}")
    for v in sorted(vs):
        if not close(jc1(x, v), jc1(y, v)):
            out.append(f"d/d{v} {jc1(x, v)} vs {jc1(y, v)}")
    if order == 2:
        for v in sorted(vs):
            for w in sorted(vs):
                if not close(jc2(x, v, w), jc2(y, v, w)):
                    out.append(f"d2/d{v}d{w} {jc2(x, v, w)} vs {jc2(y, v, w)}")
    return out


def standard_finish(pid, ev, obs, results, tot, role_fn, bounds, rule, assumptions):
    violations, known_lines, undecided = [], [], list(tot["undecided"])
    n = 0
    for f in tot["fails"]:
        n += 1
        if f.get("reproduced"):
            path = C.save_replay(pid, n, f)
            k = C.match_known(pid, role_fn(f))
            if k:
                known_lines.append(f"KNOWN-FINDING: property={pid} {k['what']}")
            else:
                violations.append(path)
                print("counterexample:", f["ob"], role_fn(f), "::", "; ".join(f.get("mismatch", []))[:400])
        else:
            C.save_replay(pid, f"nonrepro-{n}", f)
            undecided.append(f"ENCODING-MISMATCH {f['ob']}: counterexample does not reproduce natively ({f.get('mismatch') or f.get('replay_error')})")
    for u in tot["unknown"]:
        undecided.append("solver unknown: " + u[:160])
    ev.cov(engine="mirsym (symbolic execution of rustc MIR regenerated from /repo) + z3 " + z3.get_version_string(),
           functions_encoded=sorted(tot["fns"]), library_models=sorted(tot["models"]), axioms=sorted(tot["axioms"]), bounds=bounds,
           obligations=len(obs), discharged=sum(1 for r in results if r and not r.get("error") and not r.get("fails") and not r.get("unknown") and not r.get("undecided")),
           evaluations=tot["checks"], distinct_nontrivial=tot["paths"], rule=rule,
           samples=[{"obligation": r["ob"], "paths": r.get("paths"), "checks": r.get("checks"), "holds": r.get("holds"), "leaf_kinds": r.get("leaf_kinds"), "wall_s": r.get("wall_s")}
                    for r in results[:: max(1, len(results) // 12)] if r],
           queries={"validity": tot["checks"], "valid": tot["holds"], "feasibility": tot["feas_checks"], "unknown": len(tot["unknown"])},
           solver_time_s=round(tot["solver_s"], 2), panic_leaves=len(tot["panics"]),
           slowest_queries=[{"seconds": a, "verdict": b, "what": c} for a, b, c in tot.get("slow", [])], float_exactness_notes=tot.get("notes", [])[:10])
    ev.assume(*assumptions)
    C.finish(ev, violations, undecided[:30], sorted(set(known_lines)))


def poly_identity(a, b):
    """a == b for F values decided by ring normalisation of n1*d2 - n2*d1 (sum-of-monomials normal form of z3's
    simplifier): True = identity proved, None = not decided this way (fall back to a solver query)"""
    (n1, d1), (n2, d2) = a.pair(), b.pair()
    e = n1 * d2 - n2 * d1
    try:
        r = z3.simplify(e, som=True, flat=True, arith_lhs=True, sort_sums=True)
    except z3.Z3Exception:
        return None
    if z3.is_rational_value(r) and r.numerator_as_long() == 0:
        return True
    return None


def rebuild_on_load(m, ty, model_):
    """run the load-time conversion <ty>DataModel -> ty, whichever form the crate declares for serde (`from` or `try_from`).
    Returns ("from", value) or ("try_from", Result value)."""
    from mirsym.machine import Unsupported
    try:
        return "from", m.call_text(f"<{ty} as From<{ty}DataModel>>::from", [model_], [parse_type(f"{ty}DataModel")], parse_type(ty))
    except Unsupported as e:
        if not any(k in str(e) for k in ("From::from", "no model", "resolve", "callee")):
            raise
    return "try_from", m.call_text(f"<{ty} as TryFrom<{ty}DataModel>>::try_from", [model_], [parse_type(f"{ty}DataModel")], parse_type(f"Result<{ty}, String>"))
