"""C01 — first-order automatic differentiation is exact (engine M, real mode)."""
from specs import dual_ad


def run(tier, seed):
    dual_ad.run("C01", 1, tier, seed, "DESIGN.md §3.1")


def replay(path):
    import json
    from specs.dual_common import native_run
    obj = json.load(open(path))
    print(json.dumps({p: native_run([obj["scenario"]], p) for p in ("dev", "release")}, indent=1))
    return 1 if obj.get("reproduced") else 0
