"""C10 — FX sensitivities are exact and the market state follows its update history (engine M)."""
import z3, json, itertools
from vlib import common as C
from specs.dual_common import *
from specs.fx_common import *
from mirsym.machine import RustPanic, Budget

PID = "C10"
ORD = {"Zero": 0, "One": 1, "Two": 2}
KIND_OF = {0: "F64", 1: "Dual", 2: "Dual2"}


def sequences(tier):
    base = [[], [("order", "Two")], [("order", "Zero")], [("order", "One")], [("order", "Zero"), ("order", "One")], [("order", "Zero"), ("order", "Two")],
            [("order", "Two"), ("order", "One")], [("order", "Two"), ("order", "Zero")], [("update", 0)], [("update", 0), ("order", "Two")],
            [("order", "Two"), ("update", 0)], [("update", "all")], [("badupdate",)], [("order", "Two"), ("badupdate",)], [("update", 0), ("update", "last")],
            [("badsettle",)], [("badsettle",), ("order", "Two")], [("badsettle",), ("order", "Zero"), ("order", "One")], [("badsettle",), ("update", "last")], [("order", "Two"), ("badsettle",), ("order", "One")]]
    if tier == "thorough":
        ops = [("order", "Zero"), ("order", "One"), ("order", "Two"), ("update", 0), ("update", "last"), ("badupdate",), ("badsettle",)]
        base += [list(p) for p in itertools.product(ops, repeat=3)]
    return base


def obligations(tier):
    obs = []
    for q in (1, 2, 3):
        for pairs, base, k in structures(q):
            if not is_tree(pairs, k):
                continue
            if q == 3 and base is not None and base != 0:
                continue
            for si, seq in enumerate(sequences(tier)):
                if q == 1 and any(st[0] == "badsettle" for st in seq):
                    continue      # with a single quote a new settlement date is consistent (and accepted): not a refusal case
                if q == 3 and tier == "quick" and si not in (0, 1, 3, 9, 16):
                    continue
                if q == 3 and tier == "thorough" and si >= 20 and si % 7:
                    continue
                obs.append(dict(id=f"{[(NAMES[a], NAMES[b]) for a, b in pairs]} base={None if base is None else NAMES[base]} ops={seq}", pairs=pairs, base=base, k=k, seq=seq, dualq=False))
    # a quote that is already a dual number keeps its own variable
    for seq in ([], [("order", "Two")], [("order", "Two"), ("order", "One")], [("update", 1)]):
        obs.append(dict(id=f"dual-valued first quote on chain, ops={seq}", pairs=[(0, 1), (1, 2)], base=None, k=3, seq=seq, dualq=True))
    return obs


def expected_entry(path, R, order, qnames, own):
    """value, {name: d/dname}, {(n1,n2): d2} of a cross rate; own: quote index -> (name, dq/dname F) for dual-valued quotes"""
    cross = cross_expr(path, R)
    sgn = {}
    for k, s in path:
        sgn[k] = sgn.get(k, 0) + s
    d1, d2 = {}, {}
    for k, s in sgn.items():
        nm, g = own.get(k, (qnames[k], F(1)))
        d1[nm] = fr_bin("mul", fr_bin("div", fr_bin("mul", F(s), cross), R[k]), g)
    for k1, s1 in sgn.items():
        for k2, s2 in sgn.items():
            n1, g1 = own.get(k1, (qnames[k1], F(1)))
            n2, g2 = own.get(k2, (qnames[k2], F(1)))
            coeff = s1 * s2 if k1 != k2 else s1 * (s1 - 1)
            d2[(n1, n2)] = fr_bin("mul", fr_bin("mul", fr_bin("div", fr_bin("mul", F(coeff), cross), fr_bin("mul", R[k1], R[k2])), g1), g2)
    return cross, d1, d2


def one(m, S, ob):
    pairs, base, k, seq = ob["pairs"], ob["base"], ob["k"], ob["seq"]
    q = len(pairs)
    rates = [z3.Real(f"r{i}") for i in range(q)]
    newr = [z3.Real(f"u{i}") for i in range(q)]
    for r in rates + newr:
        m.assume(r > 0)
    g0 = z3.Real("g0")
    own = {}
    def num(i, r):
        if ob["dualq"] and i == 0:
            d = Struct("Dual", [dict(real=F(r), vars=m.new_arc(SetV([Str("v7")])), dual=Nd((1,), [F(g0)]))[f] for f in S.structs["Dual"]])
            return Enum("Number", "Dual", {vn: dd for vn, dd, _ in S.enums["Number"]}["Dual"], [d])
        return number_f64(S, r)
    if ob["dualq"]:
        own[0] = ("v7", F(g0))
    quotes = [mk_quote(m, S, a, b, num(i, rates[i]), NONE) for i, (a, b) in enumerate(pairs)]
    basev = NONE if base is None else some(mk_ccy(m, NAMES[base]))
    res = m.call_text("FXRates::try_new", [Seq(quotes), basev], [parse_type("Vec<FXRate>"), parse_type("Option<Ccy>")], parse_type("Result<FXRates, PyErr>"))
    chk = Check(m)
    props = [("market accepted", res.variant == "Ok")]
    if res.variant != "Ok":
        add_props(chk, props, None)
        return chk
    cell = Cell(res.fields[0])
    fxref = Ref(cell, (), True)
    order_ = ccy_order(pairs, base, k)
    paths = tree_paths(pairs, k)
    qnames = [f"fx_{NAMES[a]}{NAMES[b]}" for a, b in pairs]
    cur = list(rates)
    cur_order = 1
    steps_json = []

    def check_state(tag):
        kind, arr, f = array_of(S, cell.v)
        props.append((f"{tag}: matrix kind {KIND_OF[cur_order]}", kind == KIND_OF[cur_order]))
        props.append((f"{tag}: currencies unchanged", [c.fields[0].s for c in f["currencies"].items] == [NAMES[x] for x in order_]))
        if kind != KIND_OF[cur_order] or arr.shape != (k, k):
            return
        R = [F(r) for r in cur]
        for ii, ci in enumerate(order_):
            for jj, cj in enumerate(order_):
                el = arr.data[ii * k + jj]
                cross, d1, d2 = expected_entry(paths[(ci, cj)], R, cur_order, qnames, own)
                real = el if isinstance(el, F) else parts(S, el)["real"]
                props.append((f"{tag}: {NAMES[ci]}/{NAMES[cj]} value", fr_eq(real, cross)))
                if cur_order >= 1:
                    names = set(var_names(S, el)) | set(d1)
                    for nm in names:
                        props.append((f"{tag}: d {NAMES[ci]}/{NAMES[cj]} / d {nm}", fr_eq(str_coef1(S, el, nm), d1.get(nm, F(0)))))
                    props.append((f"{tag}: well-formed", shape_ok(S, el)))
                if cur_order == 2:
                    names = sorted(set(var_names(S, el)) | set(d1))
                    for n1 in names:
                        for n2 in names:
                            props.append((f"{tag}: d2 {NAMES[ci]}/{NAMES[cj]} / d {n1} d {n2}", fr_eq(str_coef2(S, el, n1, n2), d2.get((n1, n2), F(0)))))
    check_state("built")
    for si, step in enumerate(seq):
        tag = f"after step {si + 1} {step}"
        if step[0] == "order":
            disc = {vn: dd for vn, dd, _ in S.enums["ADOrder"]}[step[1]]
            r = m.call_text("FXRates::set_ad_order", [fxref, Enum("ADOrder", step[1], disc, [])], [parse_type("&mut FXRates"), parse_type("ADOrder")], parse_type("Result<(), PyErr>"))
            props.append((f"{tag}: Ok", r.variant == "Ok"))
            if ob["dualq"] and step[1] == "Zero":
                pass
            cur_order = ORD[step[1]]
            steps_json.append({"op": "set_ad_order", "order": step[1]})
        elif step[0] == "update":
            idxs = list(range(q)) if step[1] == "all" else [q - 1 if step[1] == "last" else step[1]]
            upd = [mk_quote(m, S, pairs[i][0], pairs[i][1], number_f64(S, newr[i]), NONE) for i in idxs]
            r = m.call_text("FXRates::update", [fxref, Seq(upd)], [parse_type("&mut FXRates"), parse_type("Vec<FXRate>")], parse_type("Result<(), PyErr>"))
            props.append((f"{tag}: Ok", r.variant == "Ok"))
            for i in idxs:
                cur[i] = newr[i]
                own.pop(i, None)
            cur_order = 1        # update rebuilds through try_new: first order
            steps_json.append({"op": "update", "idx": idxs})
        elif step[0] == "badsettle":
            # a KNOWN pair, but with a settlement date while the market has none: refused, and the refused quote must never go live
            bad = mk_quote(m, S, pairs[0][0], pairs[0][1], number_f64(S, newr[0]), some(NDT(20000, 0)))
            r = m.call_text("FXRates::update", [fxref, Seq([bad])], [parse_type("&mut FXRates"), parse_type("Vec<FXRate>")], parse_type("Result<(), PyErr>"))
            props.append((f"{tag}: update with an inconsistent settlement date is refused", r.variant == "Err"))
            steps_json.append({"op": "badsettle"})
        else:
            before = cell.v
            bad = mk_quote(m, S, pairs[0][1], pairs[0][0], number_f64(S, newr[0]), NONE)   # inverse orientation is a different (unknown) pair
            r = m.call_text("FXRates::update", [fxref, Seq([bad])], [parse_type("&mut FXRates"), parse_type("Vec<FXRate>")], parse_type("Result<(), PyErr>"))
            props.append((f"{tag}: update naming an unknown pair is refused", r.variant == "Err"))
            steps_json.append({"op": "badupdate"})
        check_state(tag)
    props.append(("no division by zero", z3.And(*m.div_guards) if m.div_guards else True))

    def replay(model):
        env = {str(v): float(mval(model, v)) for v in rates + newr + [g0]}
        qj = [quote_json(a, b, env[f"r{i}"], None, (([7], [env["g0"]]) if (ob["dualq"] and i == 0) else None)) for i, (a, b) in enumerate(pairs)]
        names = [NAMES[x] for x in range(k)]
        ops = []
        for st in steps_json:
            if st["op"] == "set_ad_order":
                ops.append(st)
            elif st["op"] == "update":
                ops.append({"op": "update", "quotes": [quote_json(pairs[i][0], pairs[i][1], env[f"u{i}"]) for i in st["idx"]]})
            elif st["op"] == "badsettle":
                ops.append({"op": "update", "quotes": [quote_json(pairs[0][0], pairs[0][1], env["u0"], 20000)]})
            else:
                ops.append({"op": "update", "quotes": [quote_json(pairs[0][1], pairs[0][0], env["u0"])]})
        sc = {"kind": "fx", "names": names, "quotes": qj, "base": None if base is None else NAMES[base], "ops": ops}
        out = {"scenario": sc, "mismatch": [], "native": {}, "reproduced": False}
        for prof in ("dev", "release"):
            o = native_run([sc], prof)[0]
            out["native"][prof] = o
            if o.get("panic") or "err" in o:
                out["mismatch"].append(f"{prof}: {o}"); continue
            curv = [env[f"r{i}"] for i in range(q)]
            ownv = {0: ("v7", env["g0"])} if ob["dualq"] else {}
            ordr = 1
            for si, snap in enumerate(o["steps"]):
                if si > 0:
                    st = steps_json[si - 1]
                    if st["op"] == "set_ad_order":
                        ordr = ORD[st["order"]]
                    elif st["op"] == "update":
                        for i in st["idx"]:
                            curv[i] = env[f"u{i}"]; ownv.pop(i, None)
                        ordr = 1
                        if snap.get("update_err"):
                            out["mismatch"].append(f"{prof}: step {si}: valid update refused")
                    else:
                        if not snap.get("update_err"):
                            out["mismatch"].append(f"{prof}: step {si}: update with {'an inconsistent settlement date' if st['op'] == 'badsettle' else 'unknown pair'} accepted")
                if "rates" not in snap:
                    out["mismatch"].append(f"{prof}: step {si}: {snap}"); continue
                for i in range(k):
                    for j in range(k):
                        got = snap["rates"][i][j]
                        w = 1.0
                        sg = {}
                        for kk, s in paths[(i, j)]:
                            w = w * curv[kk] if s > 0 else w / curv[kk]
                            sg[kk] = sg.get(kk, 0) + s
                        if got is None or got["kind"] != KIND_OF[ordr] or not close(got["real"], w, 1e-9):
                            out["mismatch"].append(f"{prof}: step {si}: {names[i]}/{names[j]} native={got and (got['kind'], got['real'])} expected=({KIND_OF[ordr]}, {w})"); continue
                        if ordr >= 1:
                            exp = {}
                            for kk, s in sg.items():
                                nm, g = ownv.get(kk, (qnames[kk], 1.0))
                                exp[nm if nm.startswith("fx_") else "v7"] = s * w / curv[kk] * g
                            for nm in set(exp) | set(got["vars"]):
                                gv = 0.0
                                for n_, x in zip(got["vars"], got["dual"]):
                                    if n_ == nm: gv = x
                                if not close(gv, exp.get(nm, 0.0), 1e-8):
                                    out["mismatch"].append(f"{prof}: step {si}: d {names[i]}/{names[j]} / d {nm} native={gv} expected={exp.get(nm, 0.0)}")
                        if ordr == 2:
                            n = len(got["vars"])
                            for a_ in range(n):
                                for b_ in range(n):
                                    na, nb = got["vars"][a_], got["vars"][b_]
                                    ka = [kk for kk in sg if ownv.get(kk, (qnames[kk],))[0] == na or (na == "v7" and kk in ownv)]
                                    kb = [kk for kk in sg if ownv.get(kk, (qnames[kk],))[0] == nb or (nb == "v7" and kk in ownv)]
                                    if not ka or not kb:
                                        expv = 0.0
                                    else:
                                        k1, k2 = ka[0], kb[0]
                                        co = sg[k1] * sg[k2] if k1 != k2 else sg[k1] * (sg[k1] - 1)
                                        expv = co * w / (curv[k1] * curv[k2]) * ownv.get(k1, (0, 1.0))[1] * ownv.get(k2, (0, 1.0))[1]
                                    if not close(2 * got["dual2"][a_ * n + b_], expv, 1e-8):
                                        out["mismatch"].append(f"{prof}: step {si}: d2 {names[i]}/{names[j]} / d {na} d {nb} native={2 * got['dual2'][a_ * n + b_]} expected={expv}")
        out["reproduced"] = bool(out["mismatch"])
        return out
    add_props(chk, props, replay)
    return chk


def worker(ob):
    P, S = get_world()
    tot = {"checks": 0, "holds": 0, "solver_s": 0.0, "fails": [], "unknown": [], "paths": 0, "feas_checks": 0, "undecided": [], "panics": [], "fns": set(), "models": set(), "axioms": set(), "leaf_kinds": {}}
    for sub in ob["batch"]:
        def harness(m, sub=sub):
            m.div_mode = "frac"
            return one(m, S, sub)
        r = explore_ob(harness, max_paths=100, max_seconds=600)
        for f in r["fails"]:
            f["sub"] = sub["id"]
        for k in ("checks", "holds", "solver_s", "paths", "feas_checks"):
            tot[k] += r.get(k, 0)
        tot["fails"] += r["fails"]; tot["unknown"] += [f"{sub['id']}: {u}" for u in r["unknown"]]
        tot["undecided"] += [f"{sub['id']}: {u}" for u in r["undecided"]]; tot["panics"] += r["panics"]
        tot["fns"] |= set(r["fns"]); tot["models"] |= set(r["models"]); tot["axioms"] |= set(r["axioms"])
    tot["fns"], tot["models"], tot["axioms"] = sorted(tot["fns"]), sorted(tot["models"]), sorted(tot["axioms"])
    return tot


def run(tier, seed):
    ev = C.Evidence(PID, tier, seed, "model_checking")
    base_obs = obligations(tier)
    obs = [dict(id=f"batch {i // 6}: {base_obs[i]['id']} ...", batch=base_obs[i:i + 6]) for i in range(0, len(base_obs), 6)]
    results = run_pool(obs, worker, seed=seed)
    tot = summarize(results)
    for f in tot["fails"]:
        f["ob"] = f.get("sub", f.get("ob"))
    if tot["panics"]:
        tot["undecided"].append(f"panic leaves: {tot['panics'][:3]}")
    standard_finish(PID, ev, obs, results, tot, lambda f: {"site": "FXRates"},
                    bounds={"markets": "every spanning-tree structure with 1..3 quotes (all orientations, orders, bases; canonical up to renaming; with 3 quotes: base = first currency or none, and in the quick tier 5 of the histories), symbolic positive rates",
                            "histories": f"{len(sequences(tier))} operation sequences of length 0..{2 if tier == 'quick' else 3} over set_ad_order(0/1/2), update(one / last / all quotes, symbolic new rates), rejected updates (unknown pair; known pair with a settlement date the rest of the market does not have, after which every later step must still see the old quotes)",
                            "dual_quotes": "first quote given as a Dual with its own variable and symbolic sensitivity", "outside": "longer histories (each step is checked against the closed form of the LATEST quotes, which is the inductive invariant); more than 3 quotes"},
                    rule="obligation = batch of 6 (market structure, history); after construction and after every step the whole matrix is compared with the closed form (value, first and second sensitivities by variable name) of the latest quotes; one validity query per (structure, history)",
                    assumptions=["structures and histories enumerated; rates symbolic", "exact arithmetic", "update rebuilds at first order (as the code documents by construction)"])


def replay(path):
    obj = json.load(open(path))
    print(json.dumps(obj.get("native"), indent=1)[:3000])
    return 1 if obj.get("reproduced") else 0
