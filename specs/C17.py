"""C17 — gradients are read back by name, in the order asked for (engine M).
gradient1 (Dual, Dual2), gradient2 (Dual2), gradient1_manifold (Dual2) on a stored list of 0..L symbolic names and a
requested list of 0..L symbolic DISTINCT names; product-rule identity of manifolds for two Dual2 numbers."""
import z3, json
from vlib import common as C
from specs.dual_common import *
from specs.C03 import find_fn

PID = "C17"
TY = {1: "Dual", 2: "Dual2"}


def obligations(L, tier):
    obs = []
    for order, which in ((1, "gradient1"), (2, "gradient1"), (2, "gradient2"), (2, "manifold")):
        for ls in range(L + 1):
            for lr in range(L + 1):
                obs.append(dict(id=f"{TY[order]}::{which} |stored|={ls} |requested|={lr}", order=order, which=which, ls=ls, lr=lr))
    LP = 2
    for la in range(LP + 1):
        for lb in range(LP + 1):
            for lr in range(1, LP + 1):
                obs.append(dict(id=f"product rule |a|={la} |b|={lb} |requested|={lr}", order=2, which="product_rule", ls=la, lb=lb, lr=lr))
    return obs


def worker(ob):
    P, S = get_world()
    order, which = ob["order"], ob["which"]
    T_ = TY[order]

    def harness(m):
        m.div_mode = "frac"
        inputs = []
        ns = mk_names(m, "a", ob["ls"])
        a = mk_dual(m, S, "a", ns, order, inputs=inputs)
        req = mk_names(m, "r", ob["lr"])
        rq = Seq(req)
        chk = Check(m)
        props = []
        VS = parse_type("Vec<String>")
        if which == "gradient1":
            out = m.call_text(f"<{T_} as Gradient1>::gradient1", [m.temp_ref(a), rq], [parse_type("&" + T_), VS], parse_type("ArrayBase<OwnedRepr<f64>, Dim<[usize; 1]>>"))
            props.append(("length", out.shape == (len(req),)))
            if out.shape == (len(req),):
                for i, r in enumerate(req):
                    props.append((f"out[{i}] = d/d req[{i}]", fr_eq(out.data[i], coef1(S, a, r.id))))
        elif which == "gradient2":
            out = m.call_text(f"<{T_} as Gradient2>::gradient2", [m.temp_ref(a), rq], [parse_type("&" + T_), VS], parse_type("ArrayBase<OwnedRepr<f64>, Dim<[usize; 2]>>"))
            n = len(req)
            props.append(("shape", out.shape == (n, n)))
            if out.shape == (n, n):
                for i in range(n):
                    for j in range(n):
                        props.append((f"out[{i}][{j}]", fr_eq(out.data[i * n + j], coef2(S, a, req[i].id, req[j].id))))
        elif which == "manifold":
            out = m.call_text(f"<{T_} as Gradient2>::gradient1_manifold", [m.temp_ref(a), rq], [parse_type("&" + T_), VS], parse_type("ArrayBase<OwnedRepr<Dual2>, Dim<[usize; 1]>>"))
            n = len(req)
            props.append(("length", out.shape == (n,)))
            if out.shape == (n,):
                for i in range(n):
                    mi = out.data[i]
                    props.append((f"m[{i}] well formed", shape_ok(S, mi)))
                    props.append((f"m[{i}].value = d/d req[{i}]", fr_eq(parts(S, mi)["real"], coef1(S, a, req[i].id))))
                    for j in range(n):
                        props.append((f"d m[{i}]/d req[{j}] = H[{i}][{j}]", fr_eq(coef1(S, mi, req[j].id), coef2(S, a, req[i].id, req[j].id))))
                    for v in [x.id for x in ns]:
                        inreq = False
                        for r in req:
                            inreq = b_or(inreq, i_cmp("eq", r.id, v))
                        props.append((f"m[{i}] has no sensitivity to names not requested", z3.Or(bz(inreq), fr_eq(coef1(S, mi, v), F(0)))))
        else:
            nb = mk_names(m, "b", ob["lb"])
            b = mk_dual(m, S, "b", nb, 2, inputs=inputs)
            D2 = parse_type("&Dual2")
            AT = parse_type("ArrayBase<OwnedRepr<Dual2>, Dim<[usize; 1]>>")
            ma = m.call_text("<Dual2 as Gradient2>::gradient1_manifold", [m.temp_ref(a), rq], [D2, VS], AT)
            mb = m.call_text("<Dual2 as Gradient2>::gradient1_manifold", [m.temp_ref(b), rq], [D2, VS], AT)
            mul = find_fn(P, "mul", "Dual2")[0]
            add = find_fn(P, "add", "Dual2")[0]
            ab = m.run_function(mul, [m.temp_ref(a), m.temp_ref(b)], {})
            for i in range(len(req)):
                t1 = m.run_function(mul, [m.temp_ref(ma.data[i]), m.temp_ref(b)], {})
                t2 = m.run_function(mul, [m.temp_ref(a), m.temp_ref(mb.data[i])], {})
                t = m.run_function(add, [m.temp_ref(t1), m.temp_ref(t2)], {})
                props.append((f"(m_a[{i}] b + a m_b[{i}]).value = d(ab)/d req[{i}]", fr_eq(parts(S, t)["real"], coef1(S, ab, req[i].id))))
                for j in range(len(req)):
                    props.append((f"d/d req[{j}] of it = d2(ab)/d req[{i}] d req[{j}]", fr_eq(coef1(S, t, req[j].id), coef2(S, ab, req[i].id, req[j].id))))

        def replay(model):
            env = input_env(model, inputs, [r.id for r in req])
            ja = rec_json(inputs[0], env)
            rj = [env[str(r.id)] for r in req]
            out_ = {"inputs": {"a": ja, "req": rj}, "mismatch": [], "native": {}, "reproduced": False}
            sc = {"kind": "dual_grad", "ty": T_, "which": which, "a": ja, "req": rj}
            if which == "product_rule":
                sc["b"] = rec_json(inputs[1], env); out_["inputs"]["b"] = sc["b"]
            for prof in ("dev", "release"):
                o = native_run([sc], prof)[0]
                out_["native"][prof] = o
                if o.get("panic"):
                    out_["mismatch"].append(f"{prof}: panic {o.get('msg')}"); continue
                n = len(rj)
                def c1(j, v):
                    for n_, x in zip(j["vars"], j["dual"]):
                        if n_ == v: return x
                    return 0.0
                def c2(j, v, w):
                    k = len(j["vars"])
                    for p in range(k):
                        for q in range(k):
                            if j["vars"][p] == v and j["vars"][q] == w: return 2 * j["dual2"][p * k + q]
                    return 0.0
                if which == "gradient1":
                    for i in range(n):
                        if not close(o["g1"][i] if i < len(o["g1"]) else None, c1(ja, rj[i])):
                            out_["mismatch"].append(f"{prof}: gradient1[{i}] native={o['g1']} by-name={c1(ja, rj[i])}")
                    if len(o["g1"]) != n:
                        out_["mismatch"].append(f"{prof}: native length {len(o['g1'])} != {n}")
                elif which == "gradient2":
                    for i in range(n):
                        for j in range(n):
                            if not close(o["g2"][i * n + j], c2(ja, rj[i], rj[j])):
                                out_["mismatch"].append(f"{prof}: gradient2[{i}][{j}] native={o['g2'][i*n+j]} by-name={c2(ja, rj[i], rj[j])}")
                elif which == "manifold":
                    for i in range(n):
                        mi = o["manifold"][i]
                        if not close(mi["real"], c1(ja, rj[i])):
                            out_["mismatch"].append(f"{prof}: m[{i}].real native={mi['real']} want={c1(ja, rj[i])}")
                        for j in range(n):
                            got = 0.0
                            for n_, x in zip(mi["vars"], mi["dual"]):
                                if n_ == f"v{rj[j]}": got = x
                            if not close(got, c2(ja, rj[i], rj[j])):
                                out_["mismatch"].append(f"{prof}: d m[{i}]/d v{rj[j]} native={got} hessian={c2(ja, rj[i], rj[j])}")
                else:
                    for i in range(n):
                        t = o["terms"][i]
                        if not close(t["real"], o["ab_g1"][i]):
                            out_["mismatch"].append(f"{prof}: product-rule value[{i}] native={t['real']} gradient(ab)={o['ab_g1'][i]}")
                        for j in range(n):
                            got = 0.0
                            for n_, x in zip(t["vars"], t["dual"]):
                                if n_ == f"v{rj[j]}": got = x
                            if not close(got, o["ab_g2"][i * n + j]):
                                out_["mismatch"].append(f"{prof}: product-rule d/dv{rj[j]}[{i}] native={got} hessian(ab)={o['ab_g2'][i*n+j]}")
            out_["reproduced"] = any("native" in x or "panic" in x for x in out_["mismatch"])
            return out_
        for r in ja_fix(rq):
            pass
        pyfail = [d for d, p in props if p is False]
        zs = [p for d, p in props if is_sym(p)]
        if pyfail:
            chk.add("; ".join(pyfail), False, replay)
        else:
            chk.add("all clauses (" + "; ".join(d for d, _ in props[:6]) + (" ..." if len(props) > 6 else "") + ")", z3.And(*zs) if zs else True, replay)
        return chk
    return explore_ob(harness, max_paths=6000, max_seconds=1500)


def ja_fix(x):
    return ()


def role_of(f):
    ob = f.get("ob", "")
    inp = f.get("inputs", {})
    absent = [r for r in inp.get("req", []) if r not in inp.get("a", {}).get("vars", [])]
    if inp.get("b") is not None:
        absent = [r for r in inp.get("req", []) if r not in inp["a"]["vars"] or r not in inp["b"]["vars"]]
    return {"site": "gradient1_manifold" if ("manifold" in ob or "product rule" in ob) else ob.split(" |")[0].split("::")[-1],
            "input_class": "requested name absent from the number" if absent else "all requested names present"}


def run(tier, seed):
    ev = C.Evidence(PID, tier, seed, "model_checking")
    L = 3 if tier == "quick" else 4
    obs = obligations(L, tier)
    results = run_pool(obs, worker, seed=seed)
    tot = summarize(results)
    violations, known_lines, undecided = [], [], list(tot["undecided"])
    n = 0
    for f in tot["fails"]:
        n += 1
        if f.get("reproduced"):
            path = C.save_replay(PID, n, f)
            k = C.match_known(PID, role_of(f))
            if k:
                known_lines.append(f"KNOWN-FINDING: property={PID} {k['what']}")
            else:
                violations.append(path)
                print("counterexample:", f["ob"], role_of(f), "::", "; ".join(f.get("mismatch", []))[:400])
        else:
            C.save_replay(PID, f"nonrepro-{n}", f)
            undecided.append(f"ENCODING-MISMATCH {f['ob']}: counterexample does not reproduce natively ({f.get('mismatch') or f.get('replay_error')})")
    for u in tot["unknown"]:
        undecided.append("solver unknown: " + u[:160])
    if tot["panics"]:
        undecided.append(f"panic leaves: {tot['panics'][:3]}")
    ev.cov(engine="mirsym + z3 " + z3.get_version_string(), functions_encoded=sorted(tot["fns"]), library_models=sorted(tot["models"]),
           bounds={"stored_names": f"0..{L} symbolic", "requested_names": f"0..{L} symbolic, pairwise distinct (may equal the stored list, permute it, be a subset, superset or disjoint)",
                   "product_rule": "two Dual2 numbers with 0..2 names each, 1..2 requested names", "outside": f"lists longer than {L}; requested lists with duplicates (property speaks of distinct names)"},
           obligations=len(obs), discharged=sum(1 for r in results if r and not r.get("error") and not r.get("fails") and not r.get("unknown") and not r.get("undecided")),
           evaluations=tot["checks"], distinct_nontrivial=tot["paths"],
           rule="obligation = (function, |stored|, |requested|); explored into feasible paths over symbolic name equalities; one validity query per path over all clauses",
           samples=[{"obligation": r["ob"], "paths": r.get("paths"), "checks": r.get("checks"), "holds": r.get("holds"), "wall_s": r.get("wall_s")} for r in results[:: max(1, len(results) // 12)] if r],
           queries={"validity": tot["checks"], "valid": tot["holds"], "feasibility": tot["feas_checks"], "unknown": len(tot["unknown"])}, solver_time_s=round(tot["solver_s"], 2))
    ev.assume("reals instead of IEEE floats", "mirsym library models", "Dual2 inputs satisfy the representation invariant (symmetric dual2)")
    C.finish(ev, violations, undecided[:30], sorted(set(known_lines)))


def replay(path):
    obj = json.load(open(path))
    print(json.dumps(obj.get("native"), indent=1)[:3000])
    return 1 if obj.get("reproduced") else 0
