"""C09 — an FX market built from n-1 quotes is complete and arbitrage-free; bad quote sets are rejected (engine M)."""
import z3, json
from vlib import common as C
from specs.dual_common import *
from specs.fx_common import *
from mirsym.machine import RustPanic, Budget

PID = "C09"


def obligations(tier):
    obs = []
    qs = (1, 2, 3, 4)
    for q in qs:
        sts = structures(q)
        if q == 4 and tier == "quick":
            # thorough: every structure on <= 5 currencies that is a tree or has the right count (the interesting ones), plus a slice of the rest
            keep = []
            for i, (pairs, base, k) in enumerate(sts):
                if k == q + 1 or i % 23 == 0:
                    keep.append((pairs, base, k))
            sts = keep
        for pairs, base, k in sts:
            obs.append(dict(id=f"quotes {[(NAMES[a], NAMES[b]) for a, b in pairs]} base={None if base is None else NAMES[base]}", pairs=pairs, base=base, k=k, st="none"))
    # markets of up to 12 currencies (the size the property names): representative shapes only
    sizes = (6, 9, 12) if tier == "quick" else (6, 7, 8, 9, 10, 11, 12, 13)
    variants = ("chain", "star", "random") if tier == "quick" else ("chain", "star", "star_last", "caterpillar", "random")
    for nm, pairs, base, k in big_structures(sizes, variants):
        obs.append(dict(id=f"large market {nm} quotes {[(NAMES[a], NAMES[b]) for a, b in pairs]} base={None if base is None else NAMES[base]}", pairs=pairs, base=base, k=k, st="none"))
    # settlement consistency on a fixed 3-currency chain
    for st in ("all_same", "first_none_rest_some", "first_some_rest_none", "different", "all_same_symbolic"):
        obs.append(dict(id=f"settlement {st} on chain", pairs=[(0, 1), (1, 2)], base=None, k=3, st=st))
    return obs


def chunks(obs, n):
    return [dict(id=f"batch {i // n}: {obs[i]['id']} ...", batch=obs[i:i + n]) for i in range(0, len(obs), n)]


def one(m, S, ob, acc):
    pairs, base, k = ob["pairs"], ob["base"], ob["k"]
    q = len(pairs)
    rates = [z3.Real(f"r{i}") for i in range(q)]
    for r in rates:
        m.assume(r > 0)
    sd = z3.Int("sd")
    m.assume(sd >= 0); m.assume(sd <= 84000)
    def settle(i):
        st = ob["st"]
        if st == "none": return NONE, None
        if st == "all_same": return some(NDT(19800, 0)), 19800
        if st == "all_same_symbolic": return some(NDT(sd, 0)), "sd"
        if st == "first_none_rest_some": return (NONE, None) if i == 0 else (some(NDT(19800, 0)), 19800)
        if st == "first_some_rest_none": return (some(NDT(19800, 0)), 19800) if i == 0 else (NONE, None)
        if st == "different": return some(NDT(19800 + i, 0)), 19800 + i
    quotes = [mk_quote(m, S, a, b, number_f64(S, rates[i]), settle(i)[0]) for i, (a, b) in enumerate(pairs)]
    basev = NONE if base is None else some(mk_ccy(m, NAMES[base]))
    chk = Check(m)
    aborted = None
    try:
        res = m.call_text("FXRates::try_new", [Seq(quotes), basev], [parse_type("Vec<FXRate>"), parse_type("Option<Ccy>")], parse_type("Result<FXRates, PyErr>"))
    except RustPanic as e:
        aborted = "panic: " + e.msg[:80]
    except Budget as e:
        aborted = "does not terminate within the recursion/step budget (" + str(e) + ")"
    ncur = k
    valid = is_tree(pairs, ncur) and ob["st"] in ("none", "all_same", "all_same_symbolic")
    if aborted:
        res = Enum("Result", "Aborted", 2, [])
    # a base that no quote mentions makes the count wrong (k counts it)
    props = [("accepted exactly for spanning trees with consistent settlement", (res.variant == "Ok") == valid)]
    soft = []
    exp = {}
    if res.variant == "Ok" and valid:
        kind, arr, f = array_of(S, res.fields[0])
        order = ccy_order(pairs, base, ncur)
        props.append(("currency order: base first, then by first appearance", [c.fields[0].s for c in f["currencies"].items] == [NAMES[x] for x in order]))
        props.append(("matrix shape", arr.shape == (ncur, ncur)))
        paths = tree_paths(pairs, ncur)
        R = [F(r) for r in rates]
        if arr.shape == (ncur, ncur):
            for ii, ci in enumerate(order):
                for jj, cj in enumerate(order):
                    el = arr.data[ii * ncur + jj]
                    real = el if isinstance(el, F) else parts(S, el)["real"]
                    want = cross_expr(paths[(ci, cj)], R)
                    exp[(ii, jj)] = want
                    props.append((f"rate {NAMES[ci]}/{NAMES[cj]} = product of quotes along the path", fr_eq(real, want)))
                    if ii == jj:
                        props.append(("own rate is 1", fr_eq(real, F(1))))
            for i, (a, b) in enumerate(pairs):
                el = arr.data[order.index(a) * ncur + order.index(b)]
                real = el if isinstance(el, F) else parts(S, el)["real"]
                props.append((f"quoted pair {NAMES[a]}{NAMES[b]} returned exactly as quoted", fr_eq(real, R[i]) and (real.d is None)))
                soft.append((f"quoted pair {NAMES[a]}{NAMES[b]} reaches the matrix without any floating-point operation (bit-exact)", not real.ar))
    props.append(("no division by zero", z3.And(*m.div_guards) if m.div_guards else True))

    def replay(model):
        env = {str(r): float(mval(model, r)) for r in rates}
        sdv = mval(model, sd)
        qj = [quote_json(a, b, env[f"r{i}"], (sdv if settle(i)[1] == "sd" else settle(i)[1])) for i, (a, b) in enumerate(pairs)]
        names = [NAMES[x] for x in range(ncur)]
        sc = {"kind": "fx", "names": names, "quotes": qj, "base": None if base is None else NAMES[base], "ops": []}
        out = {"scenario": sc, "mismatch": [], "native": {}, "reproduced": False}
        paths = tree_paths(pairs, ncur) if is_tree(pairs, ncur) else None
        for prof in ("dev", "release"):
            o = native_run([sc], prof)[0]
            out["native"][prof] = o
            if o.get("panic"):
                out["mismatch"].append(f"{prof}: abort"); continue
            if ("err" in o) == valid:
                out["mismatch"].append(f"{prof}: native {'rejects' if 'err' in o else 'accepts'} but valid={valid}"); continue
            if valid:
                snap = o["steps"][0]
                order = ccy_order(pairs, base, ncur)
                if snap["index"] != [order.index(x) for x in range(ncur)]:
                    out["mismatch"].append(f"{prof}: currency indices {snap['index']}")
                for i in range(ncur):
                    for j in range(ncur):
                        w = 1.0
                        for kk, s in paths[(i, j)]:
                            w = w * env[f"r{kk}"] if s > 0 else w / env[f"r{kk}"]
                        got = snap["rates"][i][j]
                        if got is None or not close(got["real"], w, 1e-9):
                            out["mismatch"].append(f"{prof}: {names[i]}/{names[j]} native={got and got['real']} expected={w}")
                for kk, (a, b) in enumerate(pairs):
                    if snap["rates"][a][b]["real"] != env[f"r{kk}"]:
                        out["mismatch"].append(f"{prof}: quoted pair {names[a]}{names[b]} not returned exactly ({snap['rates'][a][b]['real']} vs {env[f'r{kk}']})")
        out["reproduced"] = bool(out["mismatch"])
        return out
    def pool_replay(model):
        # doubles whose reciprocal of the reciprocal, or product with a neighbour's quotient, is not the double itself
        pool = [49.0, 14.07, 0.1, 3.0, 1.1e-5, 123456.789, 0.7, 1.0 / 3.0, 5e-324 * 2 ** 60, 98.6]
        names = [NAMES[x] for x in range(ncur)]
        out = {"scenario": None, "mismatch": [], "native": {}, "reproduced": False}
        for shift in range(len(pool)):
            vals = [pool[(i + shift) % len(pool)] for i in range(q)]
            sc = {"kind": "fx", "names": names, "quotes": [quote_json(a, b, vals[i], None) for i, (a, b) in enumerate(pairs)], "base": None if base is None else NAMES[base], "ops": []}
            for prof in ("dev", "release"):
                o = native_run([sc], prof)[0]
                if o.get("panic") or "err" in o:
                    continue
                snap = o["steps"][0]
                for kk, (a, b) in enumerate(pairs):
                    got = snap["rates"][a][b]["real"]
                    if got != vals[kk]:
                        out["mismatch"].append(f"{prof}: quoted pair {names[a]}{names[b]} not returned exactly (native {got!r} vs quoted {vals[kk]!r})")
                        out["scenario"] = sc; out["native"][prof] = o
            if out["mismatch"]:
                break
        out["reproduced"] = bool(out["mismatch"])
        return out
    if aborted:
        chk.add("try_new must return Ok or Err, never abort: " + aborted, False, replay)
        return chk
    add_props(chk, props, replay)
    for d_, ok_ in soft:
        chk.add_soft(d_, ok_, pool_replay)
    return chk


def worker(ob):
    P, S = get_world()
    tot = {"checks": 0, "holds": 0, "solver_s": 0.0, "fails": [], "unknown": [], "paths": 0, "feas_checks": 0, "undecided": [], "panics": [], "fns": set(), "models": set(), "axioms": set(), "leaf_kinds": {}}
    for sub in ob["batch"]:
        def harness(m, sub=sub):
            m.div_mode = "frac"
            return one(m, S, sub, tot)
        r = explore_ob(harness, max_paths=200, max_seconds=300)
        for f in r["fails"]:
            f["sub"] = sub["id"]
        for k in ("checks", "holds", "solver_s", "paths", "feas_checks"):
            tot[k] += r.get(k, 0)
        tot["fails"] += r["fails"]; tot["unknown"] += [f"{sub['id']}: {u}" for u in r["unknown"]]
        tot["undecided"] += [f"{sub['id']}: {u}" for u in r["undecided"]]; tot["panics"] += r["panics"]
        tot["fns"] |= set(r["fns"]); tot["models"] |= set(r["models"]); tot["axioms"] |= set(r["axioms"])
        for k, v in r.get("leaf_kinds", {}).items():
            tot["leaf_kinds"][k] = tot["leaf_kinds"].get(k, 0) + v
    tot["fns"], tot["models"], tot["axioms"] = sorted(tot["fns"]), sorted(tot["models"]), sorted(tot["axioms"])
    return tot


def run(tier, seed):
    ev = C.Evidence(PID, tier, seed, "model_checking")
    base_obs = obligations(tier)
    obs = chunks(base_obs, 12)
    results = run_pool(obs, worker, seed=seed)
    tot = summarize(results)
    for f in tot["fails"]:
        f["ob"] = f.get("sub", f.get("ob"))
    if tot["panics"]:
        tot["undecided"].append(f"panic leaves: {tot['panics'][:3]}")
    ntree = sum(1 for o in base_obs if is_tree(o["pairs"], o["k"]))
    standard_finish(PID, ev, obs, results, tot, lambda f: {"site": "FXRates::try_new", "input_class": "tree" if "accepted" not in str(f.get("mismatch")) else "rejection"},
                    bounds={"structures": f"{len(base_obs)} canonical quote-list structures with 1..4 quotes (quick: of the 4-quote structures all with 5 currencies and every 23rd of the rest): EVERY choice of quoted pairs, orientation, quote order and base (up to renaming currencies; base = none or a currency inserted first), of which {ntree} are spanning trees (2..5 currencies) and the rest are under/over-specified, cyclic, repeated or inverse pairs",
                            "rates": "symbolic positive reals per quote", "settlement": "none / all equal (concrete and symbolic date) / mixed / different on a 3-currency chain",
                            "large_markets": "chain / star / pseudo-random tree (thorough: also star centred on the last currency and caterpillar) over " + ("6, 9, 12" if tier == "quick" else "6..13") + " currencies, mixed orientations, shuffled quote order, base none or a mid-list currency: one representative labelling each, NOT every tree of that size",
                            "outside": "every structure beyond 4 quotes (only the representative large markets above); rounding of crosses; integer overflow of the edge counters beyond 13 currencies (the i16 edge-matrix sum overflows at 182 currencies)"},
                    rule="obligation = batch of 12 structures; per structure the real try_new / create_fx_array / mut_arrays_remaining_elements bodies run with Dual arithmetic; one validity query per structure over all n*n rates",
                    assumptions=["structures are enumerated (finite, canonical up to renaming); the solver quantifies over the rates", "exact fraction arithmetic (reals)", "quoted pairs: value identity over the reals AND an arithmetic taint (a quoted value must reach the matrix by moves only; if not, a fixed pool of doubles is replayed natively and only a reproduced bit difference is reported)"])


def replay(path):
    obj = json.load(open(path))
    print(json.dumps(obj.get("native"), indent=1)[:3000])
    return 1 if obj.get("reproduced") else 0
