"""C07 — built-in holiday calendars agree with their published rules (engine T + mirsym for the tables).
Tables/week masks are obtained by EXECUTING get_calendar_by_name(name) from the current MIR (so wiring, parsing and
any post-processing are the compiler's view of today's code); rules are translated from the <name>_script.py files;
z3 decides, for a symbolic day of 1970-2200, table(d) <=> rules(d)."""
import csv, datetime, json, os, re, time
import z3
from vlib import common as C
from specs.dual_common import get_world, native_run, run_pool, replay_exe
from mirsym.explore import explore
from mirsym.values import *
from mirsym.types import parse_type
from tables import rules as R

PID = "C07"
FULL = ["tgt", "nyc", "fed", "ldn", "stk", "osl", "zur"]
PARTIAL = ["tro", "tyo", "syd", "wlg", "mum"]
FIXINGS = {"usd": "nyc", "gbp": "ldn", "cad": "tro", "eur": "tgt", "jpy": "tyo", "sek": "stk", "nok": "osl", "aud": "syd", "inr": "mum"}
NAMED_DIR = os.path.join(C.REPO, "rust", "calendars", "named")


def documented_names():
    txt = open(os.path.join(C.REPO, "python", "rateslib", "calendars", "rs.py")).read()
    return re.findall(r'^\s*- \*"(\w+)"\*:', txt, flags=re.M)


def table_of(name):
    """execute get_calendar_by_name(name) symbolically-concretely from the MIR -> (ok, holiday day numbers, weekmask idxs, stats)"""
    P, S = get_world()
    out = {}

    def h(m):
        r = m.call_text("calendars::named::get_calendar_by_name", [Str(name)], [parse_type("&str")], parse_type("Result<Cal, PyErr>"))
        out["variant"] = r.variant
        if r.variant == "Ok":
            cal = r.fields[0]
            fields = dict(zip(S.structs["Cal"], cal.fields))
            out["hol"] = [(x.day, x.sec) for x in fields["holidays"].items]
            out["mask"] = sorted(w.idx for w in fields["week_mask"].items)
        return None
    res = explore(P, S, h, max_steps=20000000, max_seconds=600)
    out["undecided"] = res["undecided"]
    out["leaves"] = [(l.kind, l.detail) for l in res["leaves"]]
    out["fns"] = sorted(res["stats"]["fns_run"])
    out["models"] = sorted(res["stats"]["models_used"])
    return out


def worker(ob):
    t0 = time.time()
    kind = ob["kind"]
    res = {"ob": ob["id"], "queries": 0, "unsat": 0, "sat": [], "unknown": 0, "solver_s": 0.0, "undecided": []}
    if kind == "table":
        tb = table_of(ob["name"])
        res["table"] = tb
        return res
    s = z3.Solver()
    s.set("timeout", ob.get("timeout_ms", 60000))
    d = z3.Int("d")
    lo_all, hi_all = ob["range"]
    rules = []
    if kind in ("full", "partial"):
        rules = [r for r in R.parse_script(os.path.join(NAMED_DIR, ob["script"] + "_script.py"))]
        unknown = [r for r in rules if r.unknown]
        res["rules"] = [repr(r) for r in rules]
        if kind == "full" and unknown:
            res["undecided"].append(f"rule outside the translator's vocabulary in a fully published calendar: {unknown[0]!r}")
            return res
    table = sorted(ob["table"])
    import bisect
    y0, y1 = R.EPOCH.year + lo_all // 366 - 1, R.EPOCH.year + hi_all // 365 + 1
    for Y in range(max(y0, 1), y1 + 1):
        ylo, yhi = R.year_bounds(Y)
        lo, hi = max(ylo, lo_all), min(yhi, hi_all)
        if lo > hi:
            continue
        # one query family per calendar YEAR: the day is symbolic inside the year, the year is a constant, so every
        # rule's observed date (generated for Y-1, Y, Y+1) folds to a constant term by z3's simplifier
        yv = z3.IntVal(Y)
        T = R.in_table(d, table[bisect.bisect_left(table, lo):bisect.bisect_right(table, hi)])
        if kind in ("full", "partial"):
            preds = [(r, z3.simplify(R.rule_holds(r, d, yv))) for r in rules if not r.unknown]
            if kind == "full":
                anyrule = z3.Or(*[p for _, p in preds]) if preds else z3.BoolVal(False)
                queries = [("weekday that the rules make a holiday but the table does not", z3.And(R.wd(d) <= 4, anyrule, z3.Not(T))),
                           ("weekday holiday in the table that no rule produces", z3.And(R.wd(d) <= 4, T, z3.Not(anyrule)))]
            else:
                queries = [(f"weekday occurrence of rule {r.name!r} missing from the table", z3.And(R.wd(d) <= 4, p, z3.Not(T))) for r, p in preds]
        elif kind == "fed_nyc":
            gf = d == z3.simplify(R.easter(yv) - 2)
            tn = sorted(ob["table_nyc"])
            Tn = R.in_table(d, tn[bisect.bisect_left(tn, lo):bisect.bisect_right(tn, hi)])
            queries = [("fed differs from nyc-without-Good-Friday", T != z3.And(Tn, z3.Not(gf)))]
        elif kind == "empty":
            queries = [("calendar must have no holidays", T)]
        elif kind == "fixings":
            fx = ob["fix"]
            Fx = R.in_table(d, fx[bisect.bisect_left(fx, lo):bisect.bisect_right(fx, hi)])
            mask = ob["mask"]
            bus = z3.And(z3.Not(z3.Or(*[R.wd(d) == k for k in mask])) if mask else z3.BoolVal(True), z3.Not(T))
            queries = [("publication date that is not a business day", z3.And(Fx, z3.Not(bus))), ("business day without a publication", z3.And(bus, z3.Not(Fx)))]
        for desc, q in queries:
            found = 0
            s.push()
            s.add(d >= lo, d <= hi, q)
            while True:
                t1 = time.time()
                r = s.check()
                res["solver_s"] += time.time() - t1
                res["queries"] += 1
                if r == z3.unsat:
                    res["unsat"] += 1
                    break
                if r == z3.unknown:
                    res["unknown"] += 1
                    res["undecided"].append(f"solver unknown on: {desc} (year {Y})")
                    break
                dv = s.model().eval(d, model_completion=True).as_long()
                res["sat"].append({"desc": desc, "day": dv, "date": R.day_to_iso(dv)})
                found += 1
                s.add(d != dv)
                if found >= 10 or len(res["sat"]) >= 60:
                    break
            s.pop()
        if len(res["sat"]) >= 60:
            break
    res["wall_s"] = round(time.time() - t0, 2)
    return res


def blocks(tier):
    """year blocks of the symbolic-day queries (keeps div/mod reasoning local); thorough: one query over everything too"""
    edges = list(range(1970, 2201, 11)) + [2201]
    bl = [(R.year_bounds(a)[0], R.year_bounds(b - 1)[1]) for a, b in zip(edges[:-1], edges[1:])]
    return bl


def run(tier, seed):
    ev = C.Evidence(PID, tier, seed, "model_checking")
    get_world(); replay_exe("dev")
    names = documented_names()
    want_names = ["all", "bus"] + FULL + PARTIAL
    undecided, violations, known_lines = [], [], []
    # 1. tables by executing the real constructor from MIR
    tabs = {}
    tres = run_pool([dict(id=f"table {n}", kind="table", name=n) for n in sorted(set(names) | set(want_names))], worker, seed=seed)
    fns, models = set(), set()
    facts = []   # (role, desc, witness date day or None, name)
    for r in tres:
        if r is None or "error" in r:
            undecided.append(f"table extraction failed: {r and r.get('error', '')[-300:]}"); continue
        n = r["ob"].split()[1]
        tb = r["table"]
        fns |= set(tb["fns"]); models |= set(tb["models"])
        if tb["undecided"]:
            undecided.append(f"get_calendar_by_name({n}): {tb['undecided'][0][:300]}"); continue
        if tb.get("variant") != "Ok":
            facts.append(({"calendar": n, "clause": "name resolves"}, f"documented calendar name {n!r} does not resolve ({tb['leaves']})", None, n)); continue
        if any(sec != 0 for _, sec in tb["hol"]):
            facts.append(({"calendar": n, "clause": "midnight"}, f"{n}: holiday with a time of day", None, n))
        tabs[n] = {"days": sorted({d for d, _ in tb["hol"]}), "mask": tb["mask"]}
    for n in want_names:
        if n not in names:
            facts.append(({"calendar": n, "clause": "documented"}, f"calendar {n!r} is not listed in the documentation", None, n))
    # 2. solver obligations
    obs = []
    bl = blocks(tier)
    for n in FULL + PARTIAL:
        if n not in tabs:
            continue
        if tabs[n]["mask"] != [5, 6]:
            facts.append(({"calendar": n, "clause": "weekmask"}, f"{n}: week mask {tabs[n]['mask']} is not Saturday/Sunday", None, n))
        for (lo, hi) in bl:
            obs.append(dict(id=f"{n} rules<->table {R.day_to_iso(lo)[:4]}..{R.day_to_iso(hi)[:4]}", kind="full" if n in FULL else "partial", script=n, table=[x for x in tabs[n]["days"] if lo <= x <= hi], range=(lo, hi), name=n))
    if "fed" in tabs and "nyc" in tabs:
        for (lo, hi) in bl:
            obs.append(dict(id=f"fed = nyc minus Good Friday {R.day_to_iso(lo)[:4]}..{R.day_to_iso(hi)[:4]}", kind="fed_nyc", table=[x for x in tabs["fed"]["days"] if lo <= x <= hi],
                            table_nyc=[x for x in tabs["nyc"]["days"] if lo <= x <= hi], range=(lo, hi), name="fed"))
    for n in ("all", "bus"):
        if n in tabs:
            obs.append(dict(id=f"{n} has no holidays", kind="empty", table=tabs[n]["days"], range=(R.D0 - 3000, R.D1 + 3000), name=n))
            want_mask = [] if n == "all" else [5, 6]
            if tabs[n]["mask"] != want_mask:
                facts.append(({"calendar": n, "clause": "weekmask"}, f"{n}: week mask {tabs[n]['mask']}", None, n))
    for ccy, n in FIXINGS.items():
        p = os.path.join(C.REPO, "python", "rateslib", "data", f"{ccy}_rfr.csv")
        if n not in tabs:
            continue
        try:
            rows = list(csv.reader(open(p, encoding="utf-8-sig")))[1:]
            fx = sorted({(datetime.datetime.strptime(r_[0], "%d-%m-%Y").date() - R.EPOCH).days for r_ in rows if r_})
        except Exception as e:
            undecided.append(f"cannot read {p}: {e}"); continue
        obs.append(dict(id=f"fixings {ccy}/{n}", kind="fixings", fix=fx, table=[x for x in tabs[n]["days"] if fx[0] <= x <= fx[-1]], mask=tabs[n]["mask"], range=(fx[0], fx[-1]), name=n))
    results = run_pool(obs, worker, seed=seed)
    nq = nunsat = 0
    solver_s = 0.0
    for r in results:
        if r is None or "error" in r:
            undecided.append(f"{r and r.get('ob')}: internal error {r and r.get('error', '')[-300:]}"); continue
        nq += r["queries"]; nunsat += r["unsat"]; solver_s += r["solver_s"]
        undecided += [f"{r['ob']}: {u}" for u in r["undecided"]]
        ob = next(o for o in obs if o["id"] == r["ob"])
        for sct in r["sat"]:
            facts.append(({"calendar": ob["name"], "clause": ob["kind"], "date": sct["date"]}, f"{ob['name']}: {sct['desc']} on {sct['date']}", sct["day"], ob["name"]))
    # 3. native replay of every witness
    nrep = 0
    for role, desc, day, n in facts:
        nrep += 1
        rec = {"role": role, "desc": desc, "native": None, "reproduced": True}
        if day is not None:
            o = native_run([{"kind": "cal", "cal": {"type": "builtin", "name": n}, "ops": [{"op": "is_holiday", "date": day}, {"op": "is_bus_day", "date": day}]}], "dev")[0]
            rec["native"] = o
            tab_says = day in set(tabs.get(n, {}).get("days", []))
            if "results" not in o or o["results"][0] != tab_says:
                rec["reproduced"] = False
        path = C.save_replay(PID, nrep, rec)
        if not rec["reproduced"]:
            undecided.append(f"ENCODING-MISMATCH: native is_holiday({n}, {role.get('date')}) disagrees with the table extracted from MIR")
            continue
        k = C.match_known(PID, {"calendar": role["calendar"], "clause": role["clause"]})
        if k:
            known_lines.append(f"KNOWN-FINDING: property={PID} {k['what']}")
        else:
            violations.append(path)
            print("counterexample:", desc)
    ev.cov(engine="table/rule SMT encoder (tables/rules.py) + mirsym for table extraction + z3 " + z3.get_version_string(),
           functions_encoded=sorted(fns), library_models=sorted(models),
           calendars={n: {"holidays_in_table": len(t["days"]), "weekmask": t["mask"]} for n, t in tabs.items()},
           bounds={"dates": "every day 1970-01-01..2200-12-31: one query family per calendar year with the day symbolic inside the year (a 231-way split of the domain; together they cover it completely)", "two_directional": FULL, "one_directional": PARTIAL,
                   "fixings": list(FIXINGS.items()), "outside": "rules the repository does not publish in a translatable form (custom observance functions of tyo/wlg are skipped in the one-directional check)"},
           obligations=len(obs) + len(tres), discharged=sum(1 for r in results if r and not r.get("error") and not r["sat"] and not r["undecided"]) + len(tabs),
           evaluations=nq, distinct_nontrivial=nunsat, exhaustive=True,
           rule="obligation = one SMT query family per (calendar, direction/rule, year block) over a symbolic day; evaluations = solver calls; distinct_nontrivial = queries answered unsat (no date violates the clause in the block)",
           samples=[{"obligation": r["ob"], "queries": r["queries"], "unsat": r["unsat"], "witnesses": r["sat"][:2], "solver_s": round(r["solver_s"], 2)} for r in results[:: max(1, len(results) // 10)] if r and "queries" in r],
           queries={"total": nq, "unsat": nunsat, "sat_witnesses": sum(len(r["sat"]) for r in results if r and "sat" in r)}, solver_time_s=round(solver_s, 2),
           documented_names=names)
    ev.assume("pandas Holiday semantics as transcribed in tables/rules.py (observance applied to the rule date, start/end filter on the observed date, window 1970-2200)",
              "anonymous Gregorian computus for Easter", "mirsym model of NaiveDateTime::parse_from_str / HashMap / IndexSet used while executing get_calendar_by_name")
    C.finish(ev, violations, undecided[:30], sorted(set(known_lines)))


def replay(path):
    obj = json.load(open(path))
    print(json.dumps(obj, indent=1)[:2000])
    return 1 if obj.get("reproduced") else 0
