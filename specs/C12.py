"""C12 — curve values carry exact sensitivities to their nodes at every derivative order (engine M)."""
import z3, json, itertools, math
from vlib import common as C
from specs.dual_common import *
from specs.curve_common import *
from specs.fx_common import str_coef1, str_coef2, var_names

PID = "C12"
ORD = {"Zero": 0, "One": 1, "Two": 2}
KIND = {0: "F64", 1: "Dual", 2: "Dual2"}


def obligations(tier):
    obs = []
    ns = (2, 3) if tier == "quick" else (2, 3, 4)
    seqs = [["One"], ["Two"], ["One", "Two"], ["Two", "One"], ["Two", "Zero"], ["One", "Zero"], ["Zero", "Two"]]
    if tier == "thorough":
        seqs += [list(p) for p in itertools.product(["Zero", "One", "Two"], repeat=3)]
    for interp in INTERPS:
        for n in ns:
            for seq in seqs:
                if n >= 3 and len(seq) > 2:
                    continue
                if n == 4 and seq not in (["Two"], ["One", "Two"], ["Two", "One"]):
                    continue
                obs.append(dict(id=f"{interp} {n} float nodes, switches {seq}", kind="float", interp=interp, n=n, seq=seq))
        # nodes that already are dual numbers sharing ONE user variable (same variable list on both nodes)
        for start, seq in ((2, []), (1, []), (1, ["Two"]), (2, ["One"]), (1, ["Two", "One"])):
            obs.append(dict(id=f"{interp} 2 nodes given as {KIND[start]} on one shared user variable, switches {seq}", kind="user", interp=interp, n=2, seq=seq, start=start, shared=True))
        obs.append(dict(id=f"{interp} 2 nodes given as Dual with separate user variables, switches ['Two', 'One']", kind="user", interp=interp, n=2, seq=["Two", "One"], start=1, shared=False))
    obs.append(dict(id="index_value with base / before first node / without base", kind="index", interp="log_linear", n=2))
    for ad in ("Zero", "One", "Two"):
        obs.append(dict(id=f"nodes_into_order unsorted supply ad={ad}", kind="into_order", interp="linear", n=3, ad=ad))
    return obs


def partials(m, interp, ts, Y, i, j, x, v, t0, mm=None):
    """(d_i, d_j, d_ii, d_ij, d_jj): derivatives of the closed form w.r.t. the two node values; v = the looked-up value (F)"""
    one, zero = F(1), F(0)
    Mu, Dv, Sb = (lambda a, b: fr_bin("mul", a, b)), (lambda a, b: fr_bin("div", a, b)), (lambda a, b: fr_bin("sub", a, b))
    if interp == "linear":
        w = Dv(Sb(tF(x), tF(ts[i])), Sb(tF(ts[j]), tF(ts[i])))
        return Sb(one, w), w, zero, zero, zero
    if interp == "flat_forward":
        c = x >= ts[j]
        return fr_ite(c, zero, one), fr_ite(c, one, zero), zero, zero, zero
    if interp == "flat_backward":
        c = x <= ts[i]
        return fr_ite(c, one, zero), fr_ite(c, zero, one), zero, zero, zero
    ci, cj, first = exponents(interp, ts, i, j, x, t0)
    if first is not None:
        c, cjf = first
        gc = settled(mm, c) if (mm is not None and not isinstance(c, bool)) else (c if isinstance(c, bool) else None)
        if gc is True:
            ci, cj = zero, cjf
        elif gc is None:
            ci = fr_ite(c, zero, ci)
            cj = fr_ite(c, cjf, cj)
    di = Dv(Mu(v, ci), Y[i]); dj = Dv(Mu(v, cj), Y[j])
    dii = Dv(Mu(Mu(v, ci), Sb(ci, one)), Mu(Y[i], Y[i]))
    djj = Dv(Mu(Mu(v, cj), Sb(cj, one)), Mu(Y[j], Y[j]))
    dij = Dv(Mu(Mu(v, ci), cj), Mu(Y[i], Y[j]))
    return di, dj, dii, dij, djj


def set_order(m, S, cell, interp, order):
    T_ = INTERPS[interp]
    return m.call_text(f"CurveDF::<{T_}, Cal>::set_ad_order", [Ref(cell, (), True), mk_enum(S, "ADOrder", order)], [parse_type(f"&mut CurveDF<{T_}, Cal>"), parse_type("ADOrder")],
                       parse_type("Result<(), PyErr>"), env={"T": parse_type(T_), "U": parse_type("Cal")})


def node_values(S, curve):
    f = dict(zip(S.structs["CurveDF"], curve.fields))
    nd = f["nodes"]
    return nd.variant, nd.fields[0]


def worker(ob):
    P, S = get_world()
    interp, n, kind = ob["interp"], ob["n"], ob["kind"]

    def harness(m):
        m.div_mode = "frac"
        ts, ys = symbolic_nodes(m, n)
        x = z3.Int("x")
        m.assume(x >= 9000); m.assume(x <= 81000)
        Y = [F(y) for y in ys]
        chk = Check(m)
        props = []
        replay = None
        if interp in ("log_linear", "linear_zero_rate"):
            for y in ys:
                m.define(m.ufun("exp", m.ufun("ln", y)) == y)
            m.define(m.ufun("exp", z3.RealVal(0)) == 1)
        t0 = None
        if interp == "linear_zero_rate":
            t0 = z3.Int("t0min")
            m.assume(z3.Or(*[t0 == t for t in ts]))
            for t in ts:
                m.assume(t0 <= t)
        def t0_now():
            # once the sort has fixed the date order on this path, the first node is a definite one
            for k in range(n):
                if settled(m, z3.And(*[ts[k] <= t for t in ts])) is True:
                    return ts[k]
            return t0
        rank = [sum([z3.If(ts[l] < ts[k], 1, 0) for l in range(n) if l != k], z3.IntVal(0)) for k in range(n)]
        if kind == "float":
            r = mk_curve(m, S, interp, ts, Y)
            cell = Cell(r.fields[0])
            v0 = real_of(S, lookup(m, S, cell.v, interp, x))
            cur = 0
            for si, o in enumerate(ob["seq"]):
                prev = cur
                rr = set_order(m, S, cell, interp, o)
                props.append((f"step {si}: Ok", rr.variant == "Ok"))
                cur = ORD[o]
                knd, mp = node_values(S, cell.v)
                props.append((f"step {si}: node kind", knd == KIND[cur]))
                res = lookup(m, S, cell.v, interp, x)
                v = real_of(S, res)
                props.append((f"step {si}: looked-up value unchanged", fr_eq(v, v0)))
                if cur >= 1:
                    inner = res.fields[0]
                    props.append((f"step {si}: well-formed", shape_ok(S, inner)))
                    tags = [f"crv{r_}" for r_ in range(n)]
                    props.append((f"step {si}: only node tags appear", set(var_names(S, inner)) <= set(tags)))
                    # node k (date rank r) carries exactly the tag crv{r} with unit sensitivity
                    for pos, (key, val) in enumerate(zip(mp.keys, mp.vals)):
                        props.append((f"step {si}: node at sorted position {pos} tagged crv{pos} with unit sensitivity",
                                      var_names(S, val) == [f"crv{pos}"] and fr_eq(str_coef1(S, val, f"crv{pos}"), F(1))))
                    for i in range(n):
                        for j in range(n):
                            if i == j:
                                continue
                            sel = selects(ts, i, j, x)
                            g_ = settled(m, sel)
                            if g_ is False:
                                continue
                            if g_ is True:
                                sel = z3.BoolVal(True)
                            di, dj, dii, dij, djj = partials(m, interp, ts, Y, i, j, x, v, t0_now() if interp == "linear_zero_rate" else t0, m)
                            cl = []
                            rk = lambda a_, r_: (lambda g: g if g is not None else (rank[a_] == r_))(settled(m, rank[a_] == r_))
                            for r_ in range(n):
                                want = fr_bin("add", fr_ite(rk(i, r_), di, F(0)), fr_ite(rk(j, r_), dj, F(0)))
                                cl.append(fr_eq(str_coef1(S, inner, tags[r_]), want))
                            if cur == 2:
                                for r1 in range(n):
                                    for r2 in range(n):
                                        want = F(0)
                                        for (a, b, dd) in ((i, i, dii), (i, j, dij), (j, i, dij), (j, j, djj)):
                                            c1_, c2_ = rk(a, r1), rk(b, r2)
                                            cc_ = False if (c1_ is False or c2_ is False) else True if (c1_ is True and c2_ is True) else z3.And(*[c for c in (c1_, c2_) if c is not True])
                                            want = fr_bin("add", want, fr_ite(cc_, dd, F(0)))
                                        cl.append(fr_eq(str_coef2(S, inner, tags[r1], tags[r2]), want))
                            props.append((f"step {si}: gradient/Hessian = derivatives of the closed form on nodes {i},{j}", z3.Implies(sel, z3.And(*cl))))
            scn = {"nodes_kind": "F64"}
        elif kind == "user":
            start = ob["start"]
            gs = [z3.Real(f"g{k}") for k in range(n)]
            hs = [z3.Real(f"h{k}") for k in range(n)]
            names = ["v5"] * n if ob["shared"] else [f"v{5 + k}" for k in range(n)]
            arc = m.new_arc(SetV([Str("v5")])) if ob["shared"] else None
            def node(k):
                by = {"real": Y[k], "vars": arc if arc is not None else m.new_arc(SetV([Str(names[k])])), "dual": Nd((1,), [F(gs[k])])}
                if start == 2:
                    by["dual2"] = Nd((1, 1), [F(hs[k])])
                nm = "Dual" if start == 1 else "Dual2"
                return Struct(nm, [by[f] for f in S.structs[nm]])
            r = mk_curve(m, S, interp, ts, [node(k) for k in range(n)], kind=KIND[start])
            cell = Cell(r.fields[0])
            v0 = real_of(S, lookup(m, S, cell.v, interp, x))
            cur = start
            hcur = [F(2 * h) if start == 2 else F(0) for h in hs]      # a node's own second derivative is 2 * dual2
            for si, o in enumerate(ob["seq"]):
                rr = set_order(m, S, cell, interp, o)
                props.append((f"step {si}: Ok", rr.variant == "Ok"))
                if ORD[o] < 2:
                    hcur = [F(0)] * n
                cur = ORD[o]
            knd, mp = node_values(S, cell.v)
            props.append(("node kind after the switches", knd == KIND[cur]))
            res = lookup(m, S, cell.v, interp, x)
            v = real_of(S, res)
            props.append(("value unchanged by the switches", fr_eq(v, v0)))
            if cur >= 1:
                inner = res.fields[0]
                props.append(("variable names already present are kept", set(var_names(S, inner)) <= set(names)))
                for pos, val in enumerate(mp.vals):
                    props.append((f"node {pos} keeps its own variable", set(var_names(S, val)) <= set(names)))
                for i in range(n):
                    for j in range(n):
                        if i == j:
                            continue
                        sel = selects(ts, i, j, x)
                        g_ = settled(m, sel)
                        if g_ is False:
                            continue
                        if g_ is True:
                            sel = z3.BoolVal(True)
                        di, dj, dii, dij, djj = partials(m, interp, ts, Y, i, j, x, v, t0_now() if interp == "linear_zero_rate" else t0, m)
                        G = [F(g) for g in gs]
                        cl = []
                        for nm in sorted(set(names)):
                            want = F(0)
                            for k_, d_ in ((i, di), (j, dj)):
                                if names[k_] == nm:
                                    want = fr_bin("add", want, fr_bin("mul", d_, G[k_]))
                            cl.append(fr_eq(str_coef1(S, inner, nm), want))
                        if cur == 2:
                            for n1 in sorted(set(names)):
                                for n2 in sorted(set(names)):
                                    want = F(0)
                                    for (a, b, dd) in ((i, i, dii), (i, j, dij), (j, i, dij), (j, j, djj)):
                                        if names[a] == n1 and names[b] == n2:
                                            want = fr_bin("add", want, fr_bin("mul", dd, fr_bin("mul", G[a], G[b])))
                                    for k_, d_ in ((i, di), (j, dj)):
                                        if names[k_] == n1 and names[k_] == n2:
                                            want = fr_bin("add", want, fr_bin("mul", d_, hcur[k_]))      # node's own second-order part (2*dual2 = h)
                                    cl.append(fr_eq(str_coef2(S, inner, n1, n2), want))
                        props.append((f"chain rule through node variables on nodes {i},{j}", z3.Implies(sel, z3.And(*cl))))
            scn = {"nodes_kind": KIND[start], "gs": gs, "hs": hs, "names": names}
        elif kind == "index":
            base = z3.Real("ib")
            m.assume(base > 0)
            r = mk_curve(m, S, interp, ts, Y, index_base=base)
            T_ = INTERPS[interp]
            CT = parse_type(f"&CurveDF<{T_}, Cal>")
            env = {"T": parse_type(T_), "U": parse_type("Cal")}
            iv = m.call_text(f"CurveDF::<{T_}, Cal>::index_value", [m.temp_ref(r.fields[0]), m.temp_ref(NDT(x, 0))], [CT, parse_type("&NaiveDateTime")], parse_type("Result<Number, PyErr>"), env=env)
            val = real_of(S, lookup(m, S, r.fields[0], interp, x))
            before = z3.And(*[x < t for t in ts])
            props.append(("Ok with a base", iv.variant == "Ok"))
            if iv.variant == "Ok":
                got = real_of(S, iv.fields[0])
                props.append(("index value = base / curve value, 0 before the first node", z3.If(before, fr_eq(got, F(0)), fr_eq(got, fr_bin("div", F(base), val)))))
            r2 = mk_curve(m, S, interp, ts, Y, index_base=None)
            iv2 = m.call_text(f"CurveDF::<{T_}, Cal>::index_value", [m.temp_ref(r2.fields[0]), m.temp_ref(NDT(x, 0))], [CT, parse_type("&NaiveDateTime")], parse_type("Result<Number, PyErr>"), env=env)
            props.append(("Err without a base", iv2.variant == "Err"))
            scn = {"nodes_kind": "F64", "index": base}
        else:
            ad = ob["ad"]
            disc = {vn: d for vn, d, _ in S.enums["Number"]}["F64"]
            mp = MapV([NDT(t, 0) for t in ts], [Enum("Number", "F64", disc, [y]) for y in Y])
            out_nodes = m.call_text("curves::curve_py::nodes_into_order", [mp, mk_enum(S, "ADOrder", ad), Str("crv")], [parse_type("IndexMap<NaiveDateTime, Number>"), parse_type("ADOrder"), parse_type("&str")], parse_type("Nodes"))
            props.append(("kind", out_nodes.variant == KIND[ORD[ad]]))
            mo = out_nodes.fields[0]
            for a_, b_ in zip(mo.keys, mo.keys[1:]):
                props.append(("sorted by date", i_cmp("lt", a_.day, b_.day)))
            for pos, (key, val) in enumerate(zip(mo.keys, mo.vals)):
                same = [z3.And(iz(key.day) == ts[k], fr_eq(val if isinstance(val, F) else parts(S, val)["real"], Y[k])) for k in range(n)]
                props.append((f"position {pos} is one of the supplied nodes with its value", z3.Or(*same)))
                if ORD[ad] >= 1:
                    props.append((f"position {pos} tagged crv{pos}", var_names(S, val) == [f"crv{pos}"] and fr_eq(str_coef1(S, val, f"crv{pos}"), F(1))))
            scn = {"nodes_kind": "F64", "into_order": ad}

        def replay(model):
            tv = [mval(model, t) for t in ts]; yv = [float(mval(model, y)) for y in ys]; xv = mval(model, x)
            def nj(k):
                if scn["nodes_kind"] == "F64":
                    return {"kind": "F64", "f64": yv[k]}
                j = {"kind": scn["nodes_kind"], "real": yv[k], "vars": [int(scn["names"][k][1:])], "dual": [float(mval(model, scn["gs"][k]))]}
                if scn["nodes_kind"] == "Dual2":
                    j["dual2"] = [float(mval(model, scn["hs"][k]))]
                return j
            sc = {"kind": "curve", "interp": interp, "nodes": [[tv[k], nj(k)] for k in range(n)], "id": "crv", "index_base": float(mval(model, scn["index"])) if "index" in scn else None,
                  "ops": [{"order": o} for o in ob.get("seq", [])], "queries": [xv]}
            if "into_order" in scn:
                sc["via_nodes_into_order"] = True; sc["ad"] = scn["into_order"]
            out = {"scenario": sc, "mismatch": [], "native": {}, "reproduced": False}
            for prof in ("dev", "release"):
                o = native_run([sc], prof)[0]
                out["native"][prof] = o
                if "steps" not in o:
                    out["mismatch"].append(f"{prof}: {o}"); continue
                vals = [st["values"][0] for st in o["steps"] if "values" in st]
                base_v = vals[0]["real"]
                for si, vv in enumerate(vals):
                    if not close(vv["real"], base_v, 1e-9):
                        out["mismatch"].append(f"{prof}: step {si}: value {vv['real']} != {base_v}")
                # finite-difference check of the final gradient against bumped float curves
                fin = vals[-1]
                if fin["kind"] != "F64" and kind in ("float", "user"):
                    order = sorted(range(n), key=lambda k: tv[k])
                    for pos, k in enumerate(order):
                        eps = 1e-6 * max(1.0, abs(yv[k]))
                        # bumped values of the rule's closed form evaluated in Python (independent of the code under test)
                        bump = [py_curve_value(interp, tv, [yv[q] + (sgn * eps if q == k else 0.0) for q in range(n)], xv) for sgn in (+1, -1)]
                        fd = (bump[0] - bump[1]) / (2 * eps)
                        if kind == "float":
                            got = jc1(fin, f"crv{pos}")
                            if not close(got, fd, 1e-5):
                                out["mismatch"].append(f"{prof}: d value / d crv{pos} native={got} finite difference={fd}")
                        else:
                            pass
                    if kind == "user":
                        for nm in sorted(set(scn["names"])):
                            fd = 0.0
                            for k in range(n):
                                if scn["names"][k] != nm:
                                    continue
                                eps = 1e-6 * max(1.0, abs(yv[k]))
                                bump = [py_curve_value(interp, tv, [yv[q] + (sgn * eps if q == k else 0.0) for q in range(n)], xv) for sgn in (+1, -1)]
                                fd += (bump[0] - bump[1]) / (2 * eps) * float(mval(model, scn["gs"][k]))
                            got = jc1(fin, nm)
                            if nm not in fin["vars"]:
                                out["mismatch"].append(f"{prof}: variable {nm} lost (vars {fin['vars']})")
                            elif not close(got, fd, 1e-5):
                                out["mismatch"].append(f"{prof}: d value / d {nm} native={got} finite difference={fd}")
                        if fin["kind"] == "Dual2" and ob["shared"]:
                            # second derivative along the shared variable by a second difference of the FIRST-order native gradient
                            # second derivative along the shared variable: second difference of the closed form (Python floats) along
                            # y_q(s) = y_q + s g_q + s^2 h_q (h_q only if the second-order terms survived the switches)
                            keep_h = 1 if scn["nodes_kind"] == "Dual2" and not any(s_["order"] in ("One", "Zero") for s_ in sc["ops"]) else 0
                            def val_at(shift):
                                return py_curve_value(interp, tv, [yv[q] + shift * float(mval(model, scn["gs"][q])) + shift * shift * float(mval(model, scn["hs"][q])) * keep_h for q in range(n)], xv)
                            e2 = 1e-4
                            fd2 = (val_at(e2) - 2 * val_at(0.0) + val_at(-e2)) / (e2 * e2)
                            got2 = jc2(fin, "v5", "v5")
                            if not close(got2, fd2, 1e-4):
                                out["mismatch"].append(f"{prof}: d2 value / d v5^2 native={got2} finite difference={fd2}")
            out["reproduced"] = bool(out["mismatch"])
            return out
        props.append(("no division by zero", z3.And(*m.div_guards) if m.div_guards else True))
        lo, hi = z3.Int("lo"), z3.Int("hi")
        chk.nice = [x >= 19990, x <= 20060] + [z3.And(t >= 20000, t <= 20050) for t in ts] + [z3.And(y >= 0.5, y <= 2) for y in ys] + \
                   [z3.And(z3.Real(f"g{k}") >= -2, z3.Real(f"g{k}") <= 2, z3.Real(f"h{k}") >= -2, z3.Real(f"h{k}") <= 2) for k in range(n)]
        add_props(chk, props, replay)
        return chk
    return explore_ob(harness, max_paths=20000, max_seconds=1500)


def run(tier, seed):
    ev = C.Evidence(PID, tier, seed, "model_checking")
    obs = obligations(tier)
    results = run_pool(obs, worker, seed=seed)
    tot = summarize(results)
    if tot["panics"]:
        tot["undecided"].append(f"panic leaves: {tot['panics'][:3]}")
    standard_finish(PID, ev, obs, results, tot, lambda f: {"site": f.get("ob", "").split(" ")[0]},
                    bounds={"curves": "2..3 (quick) / 2..4 (thorough; 4 nodes with the three switch sequences that reach second order) nodes with symbolic distinct dates (every supply order), symbolic positive values, symbolic query date, all 5 rules",
                            "switches": "sequences of length 1..2 (quick) / ..3 (thorough) over orders 0,1,2 from float nodes; nodes given as Dual/Dual2 on ONE shared user variable or separate variables, with symbolic sensitivities, switched 1->2, 2->1, 1->2->1",
                            "checks": "values unchanged by every switch; node at sorted position i tagged '<id>i' with unit sensitivity; gradient and Hessian of a looked-up value = derivatives of the closed form w.r.t. the two active node values (0 elsewhere), by variable name; existing names kept; index value; nodes_into_order on unsorted supply",
                            "outside": "more than 4 nodes; longer switch sequences"},
                    rule="obligation = (rule, node count, switch sequence | user-variable layout); paths = sort orders x index branches; one validity query per path; counterexamples replayed natively and compared with finite differences of the rule's closed form evaluated in Python floats (independent of the code under test)",
                    assumptions=["reals; exp/ln uninterpreted with exp(ln y)=y on node values", "derivatives of the log-type rules are stated through v = y_i^c_i y_j^c_j with the exponents of C11", "Dual/Dual2 operators are those checked by C01/C02 (interpreted again)"])


def replay(path):
    obj = json.load(open(path))
    print(json.dumps(obj.get("native"), indent=1)[:3000])
    return 1 if obj.get("reproduced") else 0
