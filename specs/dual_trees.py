"""Expression trees for C01/C02 (guards against an inconsistency BETWEEN operators that the one-operator step
could hide).  Every tree over {+,-,*,/} and {neg, exp, log, pow(2), pow(p)} of depth <= 2 with leaves from
{x (tagged), y (tagged), c (float)} is evaluated (i) through the crate's operator bodies in mirsym and (ii) by an
independent second-order jet arithmetic over exact fractions written here; value, gradient and Hessian must agree."""
import itertools, json
import z3
from specs.dual_common import *
from mirsym.models import fpow

BIN = ("add", "sub", "mul", "div")
UN = ("neg", "exp", "log", "pow2", "powp")
LEAVES = ("x", "y", "c")
TR = {"add": "Add", "sub": "Sub", "mul": "Mul", "div": "Div"}


def trees():
    out = []
    for f in BIN:
        for g in BIN:
            for a, b, c in itertools.product(LEAVES, repeat=3):
                out.append((f, (g, a, b), c))
                out.append((f, a, (g, b, c)))
        for u in UN:
            for a, b in itertools.product(LEAVES, repeat=2):
                out.append((f, (u, a), b))
                out.append((f, a, (u, b)))
    for u in UN:
        for g in BIN:
            for a, b in itertools.product(LEAVES, repeat=2):
                out.append((u, (g, a, b)))
        for u2 in UN:
            for a in LEAVES:
                out.append((u, (u2, a)))
    return [t for t in out if uses_var(t)]


def trees3():
    """depth-3 trees: one more operator on top of a depth-2 tree"""
    out = []
    for t in trees():
        if depth(t) < 2:
            continue
        for f in BIN:
            for a in LEAVES:
                out.append((f, t, a))
                out.append((f, a, t))
        for u in UN:
            out.append((u, t))
    return out


def depth(t):
    return 0 if isinstance(t, str) else 1 + max(depth(s) for s in t[1:])


def uses_var(t):
    if isinstance(t, str):
        return t in ("x", "y")
    return any(uses_var(s) for s in t[1:])


# ---------------------------------------------------------------- independent reference: jets (value, grad[2], hess[2][2]) over F
class Jet:
    def __init__(self, v, g=None, h=None):
        self.v = v
        self.g = g or [F(0), F(0)]
        self.h = h or [[F(0), F(0)], [F(0), F(0)]]


A, Sb, Mu, Dv = (lambda p, q: fr_bin("add", p, q)), (lambda p, q: fr_bin("sub", p, q)), (lambda p, q: fr_bin("mul", p, q)), (lambda p, q: fr_bin("div", p, q))


def chain1(u, f0, f1, f2):
    """f(u) with f', f'' given as F"""
    g = [Mu(f1, u.g[i]) for i in range(2)]
    h = [[A(Mu(f1, u.h[i][j]), Mu(f2, Mu(u.g[i], u.g[j]))) for j in range(2)] for i in range(2)]
    return Jet(f0, g, h)


def jet_eval(m, t, env, assumptions):
    if isinstance(t, str):
        return env[t]
    op = t[0]
    if op in BIN:
        a, b = jet_eval(m, t[1], env, assumptions), jet_eval(m, t[2], env, assumptions)
        if op == "add":
            return Jet(A(a.v, b.v), [A(a.g[i], b.g[i]) for i in range(2)], [[A(a.h[i][j], b.h[i][j]) for j in range(2)] for i in range(2)])
        if op == "sub":
            return Jet(Sb(a.v, b.v), [Sb(a.g[i], b.g[i]) for i in range(2)], [[Sb(a.h[i][j], b.h[i][j]) for j in range(2)] for i in range(2)])
        if op == "mul":
            return Jet(Mu(a.v, b.v), [A(Mu(a.g[i], b.v), Mu(a.v, b.g[i])) for i in range(2)],
                       [[A(A(Mu(a.h[i][j], b.v), Mu(a.v, b.h[i][j])), A(Mu(a.g[i], b.g[j]), Mu(a.g[j], b.g[i]))) for j in range(2)] for i in range(2)])
        assumptions.append(b.v.z() != 0)
        inv = chain1(b, Dv(F(1), b.v), Dv(F(-1), Mu(b.v, b.v)), Dv(F(2), Mu(b.v, Mu(b.v, b.v))))
        return jet_eval(m, ("mul", "_a", "_b"), {"_a": a, "_b": inv}, assumptions)
    u = jet_eval(m, t[1], env, assumptions)
    if op == "neg":
        return chain1(u, f_neg(u.v), F(-1), F(0))
    if op == "exp":
        e = F(m.ufun("exp", u.v.z()))
        return chain1(u, e, e, e)
    if op == "log":
        assumptions.append(u.v.z() > 0)
        return chain1(u, F(m.ufun("ln", u.v.z())), Dv(F(1), u.v), Dv(F(-1), Mu(u.v, u.v)))
    if op == "pow2":
        return chain1(u, Mu(u.v, u.v), Mu(F(2), u.v), F(2))
    p = env["p"]
    assumptions.append(u.v.z() > 0)
    pm1, pm2 = F(p.z() - 1), F(p.z() - 2)
    return chain1(u, fpow(m, u.v, p), Mu(p, fpow(m, u.v, pm1)), Mu(Mu(p, pm1), fpow(m, u.v, pm2)))


# ---------------------------------------------------------------- the crate's operators (borrowed forms; the other forms are per-operator obligations)
def code_eval(m, S, t, env, T_):
    if isinstance(t, str):
        return env[t]
    op = t[0]
    ty = lambda v: "f64" if isinstance(v, F) else T_
    if op in BIN:
        a, b = code_eval(m, S, t[1], env, T_), code_eval(m, S, t[2], env, T_)
        if isinstance(a, F) and isinstance(b, F):
            return f_bin(m, op, a, b)
        return m.call_text(f"<&{ty(a)} as {TR[op]}<&{ty(b)}>>::{op}", [m.temp_ref(a), m.temp_ref(b)], [parse_type("&" + ty(a)), parse_type("&" + ty(b))], parse_type(T_))
    u = code_eval(m, S, t[1], env, T_)
    if isinstance(u, F):
        if op == "neg": return f_neg(u)
        if op == "exp": return F(m.ufun("exp", u.z()))
        if op == "log": return F(m.ufun("ln", u.z()))
        if op == "pow2": return fr_bin("mul", u, u)
        return fpow(m, u, env["p"])
    if op == "neg":
        return m.call_text(f"<&{T_} as Neg>::neg", [m.temp_ref(u)], [parse_type("&" + T_)], parse_type(T_))
    if op == "exp":
        return m.call_text(f"<{T_} as MathFuncs>::exp", [m.temp_ref(u)], [parse_type("&" + T_)], parse_type(T_))
    if op == "log":
        return m.call_text(f"<{T_} as MathFuncs>::log", [m.temp_ref(u)], [parse_type("&" + T_)], parse_type(T_))
    pw = F(2) if op == "pow2" else env["p"]
    return m.call_text(f"<&{T_} as Pow<f64>>::pow", [m.temp_ref(u), pw], [parse_type("&" + T_), parse_type("f64")], parse_type(T_))


def tree_worker(ob):
    P, S = get_world()
    order = ob["order"]
    T_ = "Dual" if order == 1 else "Dual2"
    acc = {"checks": 0, "holds": 0, "solver_s": 0.0, "fails": [], "unknown": [], "paths": 0, "feas_checks": 0, "undecided": [], "panics": [], "fns": set(), "models": set(), "axioms": set()}
    for t in ob["trees"]:
        def harness(m, t=t):
            m.div_mode = "frac"
            xs, ys, cs, ps = z3.Real("x"), z3.Real("y"), z3.Real("c"), z3.Real("p")
            names = [Atom(0, "x"), Atom(1, "y")]
            def leaf(val, k):
                by = {"real": F(val), "vars": m.new_arc(SetV([names[k]])), "dual": Nd((1,), [F(1)]), "dual2": Nd((1, 1), [F(0)])}
                return Struct(T_, [by[f] for f in S.structs[T_]])
            env_c = {"x": leaf(xs, 0), "y": leaf(ys, 1), "c": F(cs), "p": F(ps)}
            e0 = [F(0), F(0)]
            env_m = {"x": Jet(F(xs), [F(1), F(0)]), "y": Jet(F(ys), [F(0), F(1)]), "c": Jet(F(cs)), "p": F(ps)}
            assumptions = []
            want = jet_eval(m, t, env_m, assumptions)
            for a_ in assumptions:
                m.assume(a_)
            got = code_eval(m, S, t, env_c, T_)
            chk = Check(m)
            props = []
            if isinstance(got, F):
                props.append(("value", fr_eq(got, want.v)))
            else:
                props.append(("value", fr_eq(parts(S, got)["real"], want.v)))
                props.append(("shape", shape_ok(S, got)))
                for i in range(2):
                    props.append((f"d/d{'xy'[i]}", fr_eq(coef1(S, got, i), want.g[i])))
                if order == 2:
                    for i in range(2):
                        for j in range(2):
                            props.append((f"d2/d{'xy'[i]}d{'xy'[j]}", fr_eq(coef2(S, got, i, j), want.h[i][j])))
            props.append(("no division by zero inside the domain", z3.And(*m.div_guards) if m.div_guards else True))

            def replay(model, t=t, want=want):
                env = {str(v): float(mval(model, v)) for v in (xs, ys, cs, ps)}
                tj = json.loads(json.dumps(t))
                sc = {"kind": "dual_tree", "ty": T_, "tree": tj, "x": env["x"], "y": env["y"], "c": env["c"], "p": env["p"]}
                out = {"scenario": sc, "mismatch": [], "native": {}, "reproduced": False}
                fv = lambda e: zeval(e.pair()[0], env) / zeval(e.pair()[1], env)
                for prof in ("dev", "release"):
                    o = native_run([sc], prof)[0]
                    out["native"][prof] = o
                    if o.get("panic"):
                        out["mismatch"].append(f"{prof}: panic"); continue
                    try:
                        if not close(o["real"], fv(want.v)):
                            out["mismatch"].append(f"{prof}: value native={o['real']} reference={fv(want.v)}")
                        for i in range(2):
                            if not close(jc1(o, f"v{i}"), fv(want.g[i])):
                                out["mismatch"].append(f"{prof}: d/d{'xy'[i]} native={jc1(o, f'v{i}')} reference={fv(want.g[i])}")
                        if order == 2:
                            for i in range(2):
                                for j in range(2):
                                    if not close(jc2(o, f"v{i}", f"v{j}"), fv(want.h[i][j])):
                                        out["mismatch"].append(f"{prof}: d2/d{'xy'[i]}d{'xy'[j]} native={jc2(o, f'v{i}', f'v{j}')} reference={fv(want.h[i][j])}")
                    except (ZeroDivisionError, OverflowError, ValueError) as e:
                        out["mismatch"].append(f"{prof}: reference not evaluable in floats ({e})")
                out["reproduced"] = any("native" in x_ or "panic" in x_ for x_ in out["mismatch"])
                return out
            chk.nice = [z3.And(v >= 0.5, v <= 2) for v in (xs, ys, cs)] + [ps >= 1.5, ps <= 3]
            add_props(chk, [(f"{t}: {d}", p) for d, p in props], replay)
            return chk
        r = explore_ob(harness, max_paths=50, max_seconds=300)
        for f in r["fails"]:
            f["sub"] = str(t)
        for k in ("checks", "holds", "solver_s", "paths", "feas_checks"):
            acc[k] += r.get(k, 0)
        acc["fails"] += r["fails"]; acc["unknown"] += [f"{t}: {u}" for u in r["unknown"]]
        acc["undecided"] += [f"{t}: {u}" for u in r["undecided"]]; acc["panics"] += r["panics"]
        acc["fns"] |= set(r["fns"]); acc["models"] |= set(r["models"]); acc["axioms"] |= set(r["axioms"])
    acc["fns"], acc["models"], acc["axioms"] = sorted(acc["fns"]), sorted(acc["models"]), sorted(acc["axioms"])
    return acc


def tree_obligations(order, tier, seed=0):
    ts = trees()
    if tier != "quick":
        t3 = trees3()
        ts = ts + t3[seed % 8::8]
    n = 20 if tier == "quick" else 40
    return [dict(id=f"expression trees of depth<=2 #{i // n} ({TY_[order]})", kind="trees", order=order, trees=ts[i:i + n]) for i in range(0, len(ts), n)], len(ts)


TY_ = {1: "Dual", 2: "Dual2"}
