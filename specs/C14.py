"""C14 — B-spline basis: non-negative local partition of unity, correct derivatives (engine M, reals)."""
import z3, json
from fractions import Fraction as Fr
from vlib import common as C
from specs.dual_common import *
from specs.spline_common import *
from mirsym.machine import RustPanic

PID = "C14"
VF = parse_type("&Vec<f64>")


def obligations(tier):
    obs = []
    ks = (1, 2, 3, 4, 5) if tier == "quick" else (1, 2, 3, 4, 5, 6)
    for k in ks:
        for t in knot_families(k, tier):
            for m_ in range(0, k + 1):
                obs.append(dict(id=f"k={k} knots={[str(x) for x in t]} derivative {m_}", k=k, t=[str(x) for x in t], m=m_, kind="family"))
    if tier == "thorough":
        for k in (2, 3):
            obs.append(dict(id=f"k={k} symbolic end and interior knots a<b<c", k=k, kind="symbolic", m=0))
    return obs


def call_b(m, x, i, k, tv, m_):
    if m_ == 0:
        return m.call_text("splines::spline::bsplev_single_f64", [m.temp_ref(F(x)), i, m.temp_ref(k), m.temp_ref(tv), NONE],
                           [parse_type("&f64"), parse_type("usize"), parse_type("&usize"), VF, parse_type("Option<usize>")], parse_type("f64"))
    return m.call_text("splines::spline::bspldnev_single_f64", [m.temp_ref(F(x)), i, m.temp_ref(k), m.temp_ref(tv), m_, NONE],
                       [parse_type("&f64"), parse_type("usize"), parse_type("&usize"), VF, parse_type("usize"), parse_type("Option<usize>")], parse_type("f64"))


def worker(ob):
    P, S = get_world()
    k, m_ = ob["k"], ob["m"]

    def harness(m):
        m.div_mode = "frac"
        x = z3.Real("x")
        chk = Check(m)
        props = []
        if ob["kind"] == "family":
            t = [Fr(s) for s in ob["t"]]
            n = len(t) - k
            tv = Seq([F(v) for v in t])
            m.assume(x >= rv(t[0])); m.assume(x <= rv(t[-1]))
            vals = [call_b(m, x, i, k, tv, m_) for i in range(n)]
            B, sp = bspline_pieces(t, k)
            last = sp[-1]
            for s in sp:
                inside = z3.And(x >= rv(s[0]), x < rv(s[1])) if s != last else z3.And(x >= rv(s[0]), x <= rv(s[1]))
                cl = []
                for i in range(n):
                    p = pdiff(B[i][s], m_)
                    want = z3.RealVal(0)
                    for c in reversed(p):
                        want = want * x + rv(c)
                    cl.append(fr_eq(vals[i], F(want)))
                props.append((f"on span [{s[0]},{s[1]}{']' if s == last else ')'}: every basis function = derivative {m_} of its Cox-de Boor polynomial (from the right; from the left at the right end point)", z3.Implies(inside, z3.And(*cl))))
            if m_ == 0:
                tot = F(0)
                for v in vals:
                    tot = fr_bin("add", tot, v)
                props.append(("sum to one", fr_eq(tot, F(1))))
                for i, v in enumerate(vals):
                    props.append((f"B_{i} >= 0", f_cmp("ge", v, F(0))))
                    props.append((f"B_{i} vanishes outside its k knot spans", z3.Implies(z3.Or(x < rv(t[i]), x > rv(t[i + k])), fr_eq(v, F(0)))))
            if m_ >= k:
                for i, v in enumerate(vals):
                    props.append((f"derivative of order >= k is zero (B_{i})", fr_eq(v, F(0))))
            tj = [float(v) for v in t]
        else:
            a, b, c = z3.Real("a"), z3.Real("b"), z3.Real("c")
            m.assume(a < b); m.assume(b < c)
            m.assume(x >= a); m.assume(x <= c)
            tlist = [a] * k + [b] + [c] * k
            n = len(tlist) - k
            tv = Seq([F(v) for v in tlist])
            vals = [call_b(m, x, i, k, tv, 0) for i in range(n)]
            tot = F(0)
            for v in vals:
                tot = fr_bin("add", tot, v)
            props.append(("sum to one", fr_eq(tot, F(1))))
            for i, v in enumerate(vals):
                props.append((f"B_{i} >= 0", f_cmp("ge", v, F(0))))
            tj = None
        props.append(("no division by zero", z3.And(*m.div_guards) if m.div_guards else True))

        def replay(model):
            xv = float(mval(model, x))
            tt = tj if tj is not None else [float(mval(model, v)) for v in tlist]
            sc = {"kind": "bspl", "k": k, "t": tt, "x": xv, "ms": [m_]}
            out = {"scenario": sc, "mismatch": [], "native": {}, "reproduced": False}
            for prof in ("dev", "release"):
                o = native_run([sc], prof)[0]
                out["native"][prof] = o
                if "values" not in o:
                    out["mismatch"].append(f"{prof}: {o}"); continue
                got = o["values"][0]
                if tj is not None:
                    B, sp = bspline_pieces(t, k)
                    xf = mval(model, x)
                    s = next((s_ for s_ in sp if s_[0] <= xf < s_[1]), sp[-1])
                    for i in range(len(got)):
                        w = float(peval(pdiff(B[i][s], m_), xf))
                        if not close(got[i], w, 1e-9):
                            out["mismatch"].append(f"{prof}: B_{i}^({m_})({xv}) native={got[i]} reference={w}")
                if m_ == 0:
                    if not close(sum(got), 1.0, 1e-9):
                        out["mismatch"].append(f"{prof}: sum = {sum(got)}")
                    if any(g < -1e-12 for g in got):
                        out["mismatch"].append(f"{prof}: negative basis value {got}")
            out["reproduced"] = bool(out["mismatch"])
            return out
        add_props(chk, props, replay)
        return chk
    return explore_ob(harness, max_paths=5000, max_seconds=1200, max_decisions=20000, max_steps=5000000)


def run(tier, seed):
    ev = C.Evidence(PID, tier, seed, "model_checking")
    obs = obligations(tier)
    results = run_pool(obs, worker, seed=seed)
    tot = summarize(results)
    if tot["panics"]:
        tot["undecided"].append(f"panic leaves: {tot['panics'][:3]}")
    standard_finish(PID, ev, obs, results, tot, lambda f: {"site": "bspl", "k": f.get("ob", "")[:4]},
                    bounds={"order": "k = 1..5 (quick) / 1..6 (thorough)", "knots": "k-fold end knots on [0,4] with interior knot families: none, one, two distinct, non-uniform (rational), repeated interior knots up to multiplicity k-1; thorough adds three-fold and symbolic a<b<c",
                            "x": "SYMBOLIC over the whole domain: every span, every interior knot and both end points are covered by the path forks on the comparisons", "derivatives": "every order 0..k for every basis index",
                            "outside": "k > 6 (6 only in the thorough tier); fully symbolic knot vectors (z3 NRA stalls beyond 3 symbolic knots, DESIGN §2.4)"},
                    rule="obligation = (order, knot vector, derivative order); paths = position of x relative to the knots; per path one validity query: all basis functions equal the m-th derivative of the reference Cox-de Boor polynomial of the active span (exact rational polynomials computed independently), sum to one, non-negative, local support",
                    assumptions=["reals", "reference pieces computed with exact rational arithmetic in specs/spline_common.py"])


def replay(path):
    obj = json.load(open(path))
    print(json.dumps(obj.get("native"), indent=1)[:3000])
    return 1 if obj.get("reproduced") else 0
