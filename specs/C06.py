"""C06 — combined and named calendars mean the union of their parts (engine M).
(a) UnionCal / NamedCal / CalType predicates over member Cals whose holiday set and week mask are FREE sets;
(b) NamedCal::try_new on strings of the name grammar, compared for a symbolic date with the explicit combination;
(c) the four hand-written == impls with the 84k-day loop summarised by one symbolic day (cal_date_range checked apart)."""
import z3, json, itertools, re
from vlib import common as C
from specs.dual_common import *
from specs.cal_common import modifier_enum
from mirsym.models import Models
from mirsym.machine import RustPanic
from mirsym.models_chrono import weekday_idx

PID = "C06"
DT = parse_type("&NaiveDateTime")


def free_cal(S, tag):
    hol = z3.Function(f"hol_{tag}", z3.IntSort(), z3.BoolSort())
    msk = z3.Function(f"mask_{tag}", z3.IntSort(), z3.BoolSort())
    by = {"holidays": FreeSetV(lambda v, hol=hol: hol(iz(v.day)), f"hol_{tag}"), "week_mask": FreeSetV(lambda w, msk=msk: msk(iz(w.idx)), f"mask_{tag}")}
    cal = Struct("Cal", [by[f] for f in S.structs["Cal"]])
    bus = lambda d, hol=hol, msk=msk: z3.And(z3.Not(msk(weekday_idx(d))), z3.Not(hol(d)))
    wkd = lambda d, msk=msk: z3.Not(msk(weekday_idx(d)))
    hol_ = lambda d, hol=hol: hol(d)
    return cal, bus, wkd, hol_


def union_of(S, cals, settle):
    by = {"calendars": Seq(cals), "settlement_calendars": some(Seq(settle)) if settle is not None else NONE}
    return Struct("UnionCal", [by[f] for f in S.structs["UnionCal"]])


class EqModels(Models):
    """summary of the 1970-2200 range used by the == impls: one symbolic day"""
    def __init__(self, day=None):
        super().__init__()
        self.day = day

    def pre_dispatch(self, m, cal, self_ty, args, argtys, destty, env):
        if self.day is not None and cal.method == "cal_date_range":
            return ok(Seq([NDT(self.day, 0)]))
        return NotImplemented


def name_strings(tier):
    base = ["tgt", "ldn", "fed", "all"]
    out = ["tgt", "LDN", "tgt,ldn", "Tgt,Ldn|fed", "tgt|ldn", "tgt,ldn|ldn", "ldn,tgt|tgt,fed", "fed|fed", "all", "tgt,all|ldn",
           "xyz", "tgt,xyz", "tgt|xyz", "tgt|ldn|fed", "tgt||ldn", "", "tgt,", "|tgt"]
    # letter case per POSITION of the grammar: every comma/pipe separated token of a seed is upper-cased, capitalised and
    # mixed-cased on its own (all other tokens stay lower case), plus the all-upper form; a case rule applied to only one
    # part of the string (seeded change C06-5: the part after '|' not lower-cased) shows on exactly one of these
    seeds = ["tgt,ldn|fed,all", "tgt|fed"] if tier == "quick" else ["tgt,ldn|fed,all", "tgt|fed", "ldn,fed,tgt", "all|tgt,ldn,fed", "xyz|tgt", "tgt|xyz", "tgt|ldn|fed"]
    forms = (str.upper, str.capitalize) if tier == "quick" else (str.upper, str.capitalize, lambda t: t[0] + t[1:].upper(), lambda t: t[:-1] + t[-1].upper())
    for seed in seeds:
        toks = re.split(r"([,|])", seed)
        for i in range(0, len(toks), 2):
            for f in forms:
                v = "".join(f(t) if j == i else t for j, t in enumerate(toks))
                if v not in out:
                    out.append(v)
        if seed.upper() not in out:
            out.append(seed.upper())
    if tier == "thorough":
        out += [",".join(p) for p in itertools.permutations(base, 3)][:8] + ["TGT,LDN,FED|ALL,tgt", "fed,all|tgt,ldn", "ldn|tgt,ldn", "nyc,tgt|fed"]
    return out


def obligations(tier):
    obs = []
    for nc in (1, 2, 3):
        for ns in (None, 0, 1, 2):
            for wrap in ("UnionCal", "NamedCal", "CalType::UnionCal", "CalType::NamedCal"):
                if wrap != "UnionCal" and (nc, ns) not in ((2, 2), (1, None)):
                    continue
                obs.append(dict(id=f"{wrap} predicates members={nc} settlement={ns}", kind="union", nc=nc, ns=ns, wrap=wrap))
    obs.append(dict(id="Cal / CalType::Cal predicates", kind="union", nc=1, ns=None, wrap="CalType::Cal"))
    for s in name_strings(tier):
        obs.append(dict(id=f"NamedCal::try_new({s!r})", kind="name", s=s))
    for l, r in (("UnionCal", "Cal"), ("UnionCal", "UnionCal"), ("UnionCal", "NamedCal"), ("NamedCal", "Cal"), ("NamedCal", "UnionCal"), ("NamedCal", "NamedCal"),
                 ("Cal", "UnionCal"), ("Cal", "NamedCal")):
        obs.append(dict(id=f"{l} == {r}", kind="eq", l=l, r=r))
    for ln in range(0, 5):
        obs.append(dict(id=f"cal_date_range over {ln + 1} days", kind="range", ln=ln))
    obs.append(dict(id="cal_date_range with end before start", kind="range", ln=-2))
    return obs


def wrap_cal(S, kind, u, name="x"):
    if kind == "UnionCal":
        return u, "UnionCal"
    if kind == "NamedCal":
        by = {"name": Str(name), "union_cal": u}
        return Struct("NamedCal", [by[f] for f in S.structs["NamedCal"]]), "NamedCal"
    vn = kind.split("::")[1]
    inner, _ = wrap_cal(S, vn, u, name) if vn != "Cal" else (u, "Cal")
    disc = {v: d for v, d, _ in S.enums["CalType"]}[vn]
    return Enum("CalType", vn, disc, [inner]), "CalType"


def preds(m, val, tyname, d):
    date = NDT(d, 0)
    T = parse_type("&" + tyname)
    out = {}
    for meth in ("is_weekday", "is_holiday", "is_settlement", "is_bus_day"):
        out[meth] = m.call_text(f"<{tyname} as DateRoll>::{meth}", [m.temp_ref(val), m.temp_ref(date)], [T, DT], parse_type("bool"))
    return out


def worker(ob):
    P, S = get_world()
    kind = ob["kind"]
    d = z3.Int("d")

    def harness(m):
        chk = Check(m)
        props = []
        m.assume(d >= 0); m.assume(d <= 84370)
        replay = None
        if kind == "union":
            members = [free_cal(S, f"c{i}") for i in range(ob["nc"])]
            settle = None if ob["ns"] is None else [free_cal(S, f"s{i}") for i in range(ob["ns"])]
            if ob["wrap"] == "CalType::Cal":
                val, ty = wrap_cal(S, "CalType::Cal", members[0][0])
            else:
                u = union_of(S, [c[0] for c in members], None if settle is None else [c[0] for c in settle])
                val, ty = wrap_cal(S, ob["wrap"], u)
            got = preds(m, val, ty, d)
            allbus = z3.And(*[c[1](d) for c in members])
            props.append(("business day <=> business day in every member", b_eq(got["is_bus_day"], allbus)))
            props.append(("weekday <=> weekday in every member", b_eq(got["is_weekday"], z3.And(*[c[2](d) for c in members]))))
            props.append(("holiday <=> holiday in some member", b_eq(got["is_holiday"], z3.Or(*[c[3](d) for c in members]))))
            want_st = z3.BoolVal(True) if not settle else z3.And(*[c[1](d) for c in settle])
            props.append(("settlement day <=> business day in every settlement calendar (always if none)", b_eq(got["is_settlement"], want_st)))

            def replay(model):
                # explicit calendars from the model: holiday on d iff hol(d); week mask from mask(0..6)
                dv = model.eval(d, model_completion=True).as_long()
                def conc(tag):
                    hol = z3.Function(f"hol_{tag}", z3.IntSort(), z3.BoolSort()); msk = z3.Function(f"mask_{tag}", z3.IntSort(), z3.BoolSort())
                    return {"type": "cal", "holidays": [dv] if z3.is_true(model.eval(hol(dv), model_completion=True)) else [],
                            "weekmask": [k for k in range(7) if z3.is_true(model.eval(msk(k), model_completion=True))]}
                cs = [conc(f"c{i}") for i in range(ob["nc"])]
                ss = None if ob["ns"] is None else [conc(f"s{i}") for i in range(ob["ns"])]
                spec = {"type": "union", "cals": cs, "settle": ss}
                ops = [{"op": o, "date": dv} for o in ("is_weekday", "is_holiday", "is_settlement", "is_bus_day")]
                out = {"scenario": {"kind": "cal", "cal": spec, "ops": ops}, "mismatch": [], "native": {}, "reproduced": False}
                wd = (dv + 3) % 7
                busl = lambda c: wd not in c["weekmask"] and dv not in c["holidays"]
                want = [all(wd not in c["weekmask"] for c in cs), any(dv in c["holidays"] for c in cs), True if not ss else all(busl(c) for c in ss), all(busl(c) for c in cs)]
                for prof in ("dev", "release"):
                    o = native_run([out["scenario"]], prof)[0]
                    out["native"][prof] = o
                    if o.get("results") != want:
                        out["mismatch"].append(f"{prof}: native {o.get('results')} expected {want}")
                out["reproduced"] = bool(out["mismatch"])
                return out
        elif kind == "name":
            s = ob["s"]
            r = m.call_text("NamedCal::try_new", [Str(s)], [parse_type("&str")], parse_type("Result<NamedCal, PyErr>"))
            low = s.lower()
            parts = low.split("|")
            known = {"all", "bus", "nyc", "fed", "tgt", "ldn", "stk", "osl", "zur", "tro", "tyo", "syd", "wlg", "mum"}
            valid = len(parts) <= 2 and all(x in known for p in parts for x in p.split(","))
            props.append(("accepted exactly when every part is a known name and there is at most one '|'", (r.variant == "Ok") == valid))
            if r.variant == "Ok" and valid:
                def cal_of(nm):
                    return m.call_text("calendars::named::get_calendar_by_name", [Str(nm)], [parse_type("&str")], parse_type("Result<Cal, PyErr>")).fields[0]
                u = union_of(S, [cal_of(x) for x in parts[0].split(",")], [cal_of(x) for x in parts[1].split(",")] if len(parts) == 2 else None)
                gn, gu = preds(m, r.fields[0], "NamedCal", d), preds(m, u, "UnionCal", d)
                for k in gn:
                    props.append((f"{k}: named == explicit combination", b_eq(gn[k], gu[k])))

            def replay(model):
                out = {"scenario": None, "mismatch": [], "native": {}, "reproduced": False}
                dv = model.eval(d, model_completion=True).as_long() if model is not None else 19800
                ops = [{"op": o, "date": dv} for o in ("is_weekday", "is_holiday", "is_settlement", "is_bus_day")]
                sc1 = {"kind": "cal", "cal": {"type": "named", "name": s}, "ops": ops}
                out["scenario"] = sc1
                for prof in ("dev", "release"):
                    o1 = native_run([sc1], prof)[0]
                    out["native"][prof] = o1
                    if bool(o1.get("err")) == valid:
                        out["mismatch"].append(f"{prof}: try_new({s!r}) err={bool(o1.get('err'))} but valid={valid}")
                    elif valid:
                        spec = {"type": "union", "cals": [{"type": "builtin", "name": x} for x in parts[0].split(",")],
                                "settle": [{"type": "builtin", "name": x} for x in parts[1].split(",")] if len(parts) == 2 else None}
                        o2 = native_run([{"kind": "cal", "cal": spec, "ops": ops}], prof)[0]
                        if o1.get("results") != o2.get("results"):
                            out["mismatch"].append(f"{prof}: day {dv}: named {o1.get('results')} explicit {o2.get('results')}")
                out["reproduced"] = bool(out["mismatch"])
                return out
        elif kind == "eq":
            m.models.day = d
            def mk(side, k):
                ms = [free_cal(S, f"{side}c{i}") for i in range(2 if k != "Cal" else 1)]
                st = [free_cal(S, f"{side}s{i}") for i in range(1)] if k != "Cal" else None
                if k == "Cal":
                    return ms[0][0], "Cal", ms[0][1], (lambda dd: z3.BoolVal(True))
                u = union_of(S, [c[0] for c in ms], [c[0] for c in st])
                v, t = wrap_cal(S, k, u)
                return v, t, (lambda dd, ms=ms: z3.And(*[c[1](dd) for c in ms])), (lambda dd, st=st: z3.And(*[c[1](dd) for c in st]))
            lv, lt, lbus, lstl = mk("l", ob["l"])
            rv_, rt, rbus, rstl = mk("r", ob["r"])
            res = m.call_text(f"<{lt} as PartialEq<{rt}>>::eq", [m.temp_ref(lv), m.temp_ref(rv_)], [parse_type("&" + lt), parse_type("&" + rt)], parse_type("bool"))
            props.append(("per-day term of == is: same business-day status and same settlement status", b_eq(res, z3.And(lbus(d) == rbus(d), lstl(d) == rstl(d)))))

            def replay(model):
                # explicit calendars that agree everywhere except (possibly) on the model's day; a NamedCal side cannot be built from free sets
                out = {"scenario": None, "mismatch": [], "native": {}, "reproduced": False}
                if "NamedCal" in (ob["l"], ob["r"]):
                    out["mismatch"].append("not replayable: a NamedCal can only be built from built-in names")
                    return out
                dv = model.eval(d, model_completion=True).as_long()
                def conc(tag):
                    hol = z3.Function(f"hol_{tag}", z3.IntSort(), z3.BoolSort()); msk = z3.Function(f"mask_{tag}", z3.IntSort(), z3.BoolSort())
                    return {"type": "cal", "holidays": [dv] if z3.is_true(model.eval(hol(dv), model_completion=True)) else [],
                            "weekmask": [k for k in range(7) if z3.is_true(model.eval(msk(k), model_completion=True))]}
                def side(sd, k):
                    if k == "Cal":
                        return conc(f"{sd}c0")
                    return {"type": "union", "cals": [conc(f"{sd}c0"), conc(f"{sd}c1")], "settle": [conc(f"{sd}s0")]}
                a, b = side("l", ob["l"]), side("r", ob["r"])
                sc = {"kind": "cal_eq", "a": a, "b": b}
                out["scenario"] = sc
                def status(spec, day):
                    wd = (day + 3) % 7
                    bl = lambda c: wd not in c["weekmask"] and day not in c["holidays"]
                    if spec["type"] == "cal":
                        return (bl(spec), True)
                    return (all(bl(c) for c in spec["cals"]), all(bl(c) for c in spec["settle"]))
                want = all(status(a, day) == status(b, day) for day in list(range(0, 14)) + [dv])      # weekly pattern + the one holiday
                for prof in ("dev", "release"):
                    o = native_run([sc], prof)[0]
                    out["native"][prof] = o
                    if o.get("eq") != want:
                        out["mismatch"].append(f"{prof}: native == gives {o.get('eq')}, day-by-day comparison gives {want} (day {dv})")
                out["reproduced"] = bool(out["mismatch"])
                return out
        else:
            ln = ob["ln"]
            m.assume(d <= 84000); m.assume(d >= 10)
            cal, *_ = free_cal(S, "c0")
            res = m.call_text("<Cal as DateRoll>::cal_date_range", [m.temp_ref(cal), m.temp_ref(NDT(d, 0)), m.temp_ref(NDT(d + ln, 0))], [parse_type("&Cal"), DT, DT], parse_type("Result<Vec<NaiveDateTime>, PyErr>"))
            props.append(("Ok", res.variant == "Ok"))
            if res.variant == "Ok":
                items = res.fields[0].items
                props.append(("length", len(items) == max(ln + 1, 0)))
                for k, it in enumerate(items):
                    props.append((f"item {k} = start + {k}", b_and(i_cmp("eq", it.day, d + k), i_cmp("eq", it.sec, 0))))

            def replay(model):
                dv = model.eval(d, model_completion=True).as_long()
                sc = {"kind": "cal", "cal": {"type": "cal", "holidays": [], "weekmask": [5, 6]}, "ops": [{"op": "cal_date_range", "date": dv, "end": dv + ln}]}
                out = {"scenario": sc, "mismatch": [], "native": {}, "reproduced": False}
                want = list(range(dv, dv + ln + 1))
                for prof in ("dev", "release"):
                    o = native_run([sc], prof)[0]
                    out["native"][prof] = o
                    got = (o.get("results") or [None])[0]
                    if got != want:
                        out["mismatch"].append(f"{prof}: cal_date_range({dv}, {dv + ln}) native={got} expected={want}")
                out["reproduced"] = bool(out["mismatch"])
                return out
        add_props(chk, props, replay)
        return chk
    return explore_ob(harness, max_paths=3000, max_seconds=1200, models=EqModels())


def run(tier, seed):
    ev = C.Evidence(PID, tier, seed, "model_checking")
    obs = obligations(tier)
    results = run_pool(obs, worker, seed=seed)
    tot = summarize(results)
    if tot["panics"]:
        tot["undecided"].append(f"panic leaves: {tot['panics'][:3]}")
    standard_finish(PID, ev, obs, results, tot, lambda f: {"site": f.get("ob", "").split(" members")[0].split("(")[0]},
                    bounds={"union": "1..3 member calendars and none/0/1/2 settlement calendars, each with a FREE holiday set and FREE week mask (uninterpreted membership), symbolic date 1970-2200; NamedCal / CalType wrappers delegate",
                            "names": f"{len(name_strings(tier))} strings of the grammar name(,name)*(|name(,name)*)* over tgt ldn fed all + unknown/empty parts, case variants, 0..2 pipes; each compared for a SYMBOLIC date with the explicit UnionCal of get_calendar_by_name(parts) (real tables from the MIR)",
                            "equality": "the 4 hand-written == impls x operand kinds: per-day term proved for one symbolic day (range summarised by a single symbolic day); cal_date_range proved to enumerate consecutive days for ranges of 1..5 days and empty ranges",
                            "outside": "more than 3 members; the 84371-iteration loop of == itself is summarised, not unrolled; names outside the alphabet (their tables are C07)"},
                    rule="obligation = (wrapper kind, member counts) | name string | == impl | range length; explored into paths; one validity query per path",
                    assumptions=["free sets = arbitrary calendars", "range summary: == iterates exactly the days returned by cal_date_range (checked separately)", "mirsym models of str::split / to_lowercase on concrete strings"])


def replay(path):
    obj = json.load(open(path))
    print(json.dumps(obj.get("native"), indent=1)[:3000])
    return 1 if obj.get("reproduced") else 0
