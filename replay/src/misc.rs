//! JSON round-trip scenarios (C16).
use rateslib::dual::Dual;
use serde_json::{json, Value};

pub fn run(sc: &Value) -> Value {
    match sc["kind"].as_str().unwrap_or("") {
        "json_f64" => {
            // the double travels as its bit pattern so that the scenario file itself does not depend on float parsing
            let bits: u64 = sc["bits"].as_str().unwrap().parse().unwrap();
            let x = f64::from_bits(bits);
            let d = Dual::try_new(x, vec!["v0".to_string()], vec![x]).unwrap();
            let text = serde_json::to_string(&d).unwrap();
            let back: Dual = serde_json::from_str(&text).unwrap();
            let tagged = format!("{{\"Dual\":{}}}", text);
            let re = rateslib::verif_hooks::from_json_tagged(&tagged);
            let re_ok = match &re { Ok(t) => t == &tagged, Err(_) => false };
            json!({"text": text, "real_bits_after": back.real().to_bits().to_string(), "same": back.real().to_bits() == bits && back == d, "tagged_same": re_ok})
        }
        "json_tagged" => {
            let r = std::panic::catch_unwind(|| rateslib::verif_hooks::from_json_tagged(sc["text"].as_str().unwrap()));
            match r { Ok(Ok(t)) => json!({"ok": t}), Ok(Err(e)) => json!({"err": e}), Err(_) => json!({"panic": true}) }
        }
        _ => json!({"error": format!("unknown scenario {}", sc["kind"])}),
    }
}
