//! dsolve / fdsolve scenarios: A (rows), b as number json ({"kind":"F64","f64":..} | Dual | Dual2 records), all of one kind.
use crate::dualops::{mk1, mk2, out1, out2};
use ndarray::{Array1, Array2};
use rateslib::dual::linalg::{dsolve, fdsolve};
use rateslib::dual::{Dual, Dual2};
use serde_json::{json, Value};

fn f(v: &Value) -> f64 { v["f64"].as_f64().unwrap() }

pub fn run(sc: &Value) -> Value {
    let rows = sc["a"].as_array().unwrap();
    let (r, c) = (rows.len(), rows[0].as_array().unwrap().len());
    let flat: Vec<&Value> = rows.iter().flat_map(|x| x.as_array().unwrap().iter()).collect();
    let bs = sc["b"].as_array().unwrap();
    let lsq = sc["allow_lsq"].as_bool().unwrap_or(false);
    let ka = sc["kind_a"].as_str().unwrap();
    let kb = sc["kind_b"].as_str().unwrap();
    match (sc["fn"].as_str().unwrap(), ka, kb) {
        ("dsolve", "F64", "F64") => {
            let a = Array2::from_shape_vec((r, c), flat.iter().map(|x| f(x)).collect()).unwrap();
            let b = Array1::from_vec(bs.iter().map(f).collect());
            json!({"x": dsolve(&a.view(), &b.view(), lsq).iter().map(|x| json!({"kind": "F64", "real": x, "vars": [], "dual": [], "dual2": []})).collect::<Vec<Value>>()})
        }
        ("dsolve", "Dual", "Dual") => {
            let a = Array2::from_shape_vec((r, c), flat.iter().map(|x| mk1(x, None)).collect::<Vec<Dual>>()).unwrap();
            let b = Array1::from_vec(bs.iter().map(|x| mk1(x, None)).collect::<Vec<Dual>>());
            json!({"x": dsolve(&a.view(), &b.view(), lsq).iter().map(out1).collect::<Vec<Value>>()})
        }
        ("dsolve", "Dual2", "Dual2") => {
            let a = Array2::from_shape_vec((r, c), flat.iter().map(|x| mk2(x, None)).collect::<Vec<Dual2>>()).unwrap();
            let b = Array1::from_vec(bs.iter().map(|x| mk2(x, None)).collect::<Vec<Dual2>>());
            json!({"x": dsolve(&a.view(), &b.view(), lsq).iter().map(out2).collect::<Vec<Value>>()})
        }
        ("fdsolve", "F64", "F64") => {
            let a = Array2::from_shape_vec((r, c), flat.iter().map(|x| f(x)).collect()).unwrap();
            let b = Array1::from_vec(bs.iter().map(f).collect());
            json!({"x": fdsolve(&a.view(), &b.view(), lsq).iter().map(|x| json!({"kind": "F64", "real": x, "vars": [], "dual": [], "dual2": []})).collect::<Vec<Value>>()})
        }
        ("fdsolve", "F64", "Dual") => {
            let a = Array2::from_shape_vec((r, c), flat.iter().map(|x| f(x)).collect()).unwrap();
            let b = Array1::from_vec(bs.iter().map(|x| mk1(x, None)).collect::<Vec<Dual>>());
            json!({"x": fdsolve(&a.view(), &b.view(), lsq).iter().map(out1).collect::<Vec<Value>>()})
        }
        ("fdsolve", "F64", "Dual2") => {
            let a = Array2::from_shape_vec((r, c), flat.iter().map(|x| f(x)).collect()).unwrap();
            let b = Array1::from_vec(bs.iter().map(|x| mk2(x, None)).collect::<Vec<Dual2>>());
            json!({"x": fdsolve(&a.view(), &b.view(), lsq).iter().map(out2).collect::<Vec<Value>>()})
        }
        _ => json!({"error": "linalg scenario"}),
    }
}
