//! Calendar scenarios: build a calendar (built-in by name, explicit Cal, UnionCal, NamedCal string) and run a list of
//! date operations.  Dates travel as day numbers since 1970-01-01.
use chrono::{Datelike, NaiveDate, NaiveDateTime};
use rateslib::calendars::{get_calendar_by_name, Cal, CalType, DateRoll, Modifier, NamedCal, RollDay, UnionCal};
use serde_json::{json, Value};
use std::panic::{catch_unwind, AssertUnwindSafe};

pub fn dt(n: i64) -> NaiveDateTime {
    NaiveDate::from_num_days_from_ce_opt((719163 + n) as i32).expect("date").and_hms_opt(0, 0, 0).unwrap()
}
pub fn dn(d: &NaiveDateTime) -> i64 { d.date().num_days_from_ce() as i64 - 719163 }

fn cal(v: &Value) -> Result<Cal, String> {
    match v["type"].as_str().unwrap() {
        "builtin" => get_calendar_by_name(v["name"].as_str().unwrap()).map_err(|e| { std::mem::forget(e); "err".to_string() }),
        "cal" => Ok(Cal::new(v["holidays"].as_array().unwrap().iter().map(|x| dt(x.as_i64().unwrap())).collect(),
                             v["weekmask"].as_array().unwrap().iter().map(|x| x.as_u64().unwrap() as u8).collect())),
        _ => Err("not a Cal".into()),
    }
}
pub fn caltype(v: &Value) -> Result<CalType, String> {
    match v["type"].as_str().unwrap() {
        "builtin" | "cal" => Ok(CalType::Cal(cal(v)?)),
        "union" => {
            let cs: Result<Vec<Cal>, String> = v["cals"].as_array().unwrap().iter().map(cal).collect();
            let ss = if v["settle"].is_null() { None } else {
                let s: Result<Vec<Cal>, String> = v["settle"].as_array().unwrap().iter().map(cal).collect(); Some(s?) };
            Ok(CalType::UnionCal(UnionCal::new(cs?, ss)))
        }
        "named" => NamedCal::try_new(v["name"].as_str().unwrap()).map(CalType::NamedCal).map_err(|e| { std::mem::forget(e); "err".to_string() }),
        _ => Err("calspec".into()),
    }
}
fn modifier(s: &str) -> Modifier { match s { "Act" => Modifier::Act, "F" => Modifier::F, "ModF" => Modifier::ModF, "P" => Modifier::P, _ => Modifier::ModP } }
fn rollday(v: &Value) -> RollDay {
    match v["kind"].as_str().unwrap_or("Unspecified") { "Int" => RollDay::Int { day: v["day"].as_u64().unwrap() as u32 }, "EoM" => RollDay::EoM {}, "SoM" => RollDay::SoM {}, "IMM" => RollDay::IMM {}, _ => RollDay::Unspecified {} }
}

fn one(c: &CalType, op: &Value) -> Value {
    let d = op.get("date").and_then(|x| x.as_i64()).map(dt);
    let st = op["settlement"].as_bool().unwrap_or(false);
    let days = op["days"].as_i64().unwrap_or(0) as i8;
    match op["op"].as_str().unwrap() {
        "is_weekday" => json!(c.is_weekday(&d.unwrap())),
        "is_holiday" => json!(c.is_holiday(&d.unwrap())),
        "is_bus_day" => json!(c.is_bus_day(&d.unwrap())),
        "is_settlement" => json!(c.is_settlement(&d.unwrap())),
        "roll" => json!(dn(&c.roll(&d.unwrap(), &modifier(op["modifier"].as_str().unwrap()), st))),
        "add_days" => json!(dn(&c.add_days(&d.unwrap(), days, &modifier(op["modifier"].as_str().unwrap()), st))),
        "lag" => json!(dn(&c.lag(&d.unwrap(), days, st))),
        "add_bus_days" => match c.add_bus_days(&d.unwrap(), days, st) { Ok(x) => json!(dn(&x)), Err(e) => { std::mem::forget(e); json!({"err": true}) } },
        "add_months" => json!(dn(&c.add_months(&d.unwrap(), op["months"].as_i64().unwrap() as i32, &modifier(op["modifier"].as_str().unwrap()), &rollday(&op["roll"]), st))),
        "bus_date_range" => match c.bus_date_range(&d.unwrap(), &dt(op["end"].as_i64().unwrap())) {
            Ok(v) => json!(v.iter().map(dn).collect::<Vec<i64>>()), Err(e) => { std::mem::forget(e); json!({"err": true}) } },
        "cal_date_range" => match c.cal_date_range(&d.unwrap(), &dt(op["end"].as_i64().unwrap())) {
            Ok(v) => json!(v.iter().map(dn).collect::<Vec<i64>>()), Err(e) => { std::mem::forget(e); json!({"err": true}) } },
        _ => json!({"error": "op"}),
    }
}

pub fn run(sc: &Value) -> Value {
    if sc["kind"].as_str() == Some("cal_eq") {
        let (a, b) = (caltype(&sc["a"]), caltype(&sc["b"]));
        return match (a, b) {
            (Ok(a), Ok(b)) => {
                let r = match (&a, &b) {
                    (CalType::UnionCal(x), CalType::Cal(y)) => x == y, (CalType::UnionCal(x), CalType::UnionCal(y)) => x == y, (CalType::UnionCal(x), CalType::NamedCal(y)) => x == y,
                    (CalType::NamedCal(x), CalType::Cal(y)) => x == y, (CalType::NamedCal(x), CalType::UnionCal(y)) => x == y, (CalType::NamedCal(x), CalType::NamedCal(y)) => x == y,
                    (CalType::Cal(x), CalType::UnionCal(y)) => x == y, (CalType::Cal(x), CalType::NamedCal(y)) => x == y, (CalType::Cal(x), CalType::Cal(y)) => x == y,
                };
                json!({"eq": r})
            }
            _ => json!({"err": true}),
        };
    }
    match caltype(&sc["cal"]) {
        Err(_) => json!({"err": true}),
        Ok(c) => {
            let outs: Vec<Value> = sc["ops"].as_array().unwrap().iter().map(|op| {
                match catch_unwind(AssertUnwindSafe(|| one(&c, op))) { Ok(v) => v, Err(_) => json!({"panic": true}) }
            }).collect();
            json!({"results": outs})
        }
    }
}
