use serde_json::{json, Value};
pub fn run(sc: &Value) -> Value { json!({"error": format!("unknown scenario {}", sc["kind"])}) }
