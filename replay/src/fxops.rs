//! FX market scenarios: build FXRates from quotes, apply a sequence of operations, report every cross rate after each.
use crate::numops::{mkn, outn};
use rateslib::dual::ADOrder;
use rateslib::fx::rates::{Ccy, FXRate, FXRates};
use serde_json::{json, Value};

fn quote(q: &Value) -> Result<FXRate, ()> {
    let st = if q["settlement"].is_null() { None } else { Some(crate::calops::dt(q["settlement"].as_i64().unwrap())) };
    FXRate::try_new(q["lhs"].as_str().unwrap(), q["rhs"].as_str().unwrap(), mkn(&q["rate"]), st).map_err(|e| { std::mem::forget(e); })
}
fn quotes(v: &Value) -> Result<Vec<FXRate>, ()> { v.as_array().unwrap().iter().map(quote).collect() }
fn snapshot(fx: &FXRates, names: &[String]) -> Value {
    let mut rows = vec![];
    for a in names {
        let mut row = vec![];
        for b in names {
            let (ca, cb) = (Ccy::try_new(a).unwrap(), Ccy::try_new(b).unwrap());
            row.push(match fx.rate(&ca, &cb) { Some(n) => outn(&n), None => json!(null) });
        }
        rows.push(json!(row));
    }
    json!({"index": names.iter().map(|n| fx.get_ccy_index(&Ccy::try_new(n).unwrap())).collect::<Vec<Option<usize>>>(), "rates": rows})
}

pub fn run(sc: &Value) -> Value {
    let names: Vec<String> = sc["names"].as_array().unwrap().iter().map(|x| x.as_str().unwrap().to_string()).collect();
    let qs = match quotes(&sc["quotes"]) { Ok(q) => q, Err(_) => return json!({"err": "quote"}) };
    let base = if sc["base"].is_null() { None } else { Some(Ccy::try_new(sc["base"].as_str().unwrap()).unwrap()) };
    let mut fx = match FXRates::try_new(qs, base) { Ok(f) => f, Err(e) => { std::mem::forget(e); return json!({"err": "try_new"}); } };
    let mut steps = vec![snapshot(&fx, &names)];
    for op in sc["ops"].as_array().unwrap_or(&vec![]) {
        match op["op"].as_str().unwrap() {
            "set_ad_order" => {
                let o = match op["order"].as_str().unwrap() { "Zero" => ADOrder::Zero, "One" => ADOrder::One, _ => ADOrder::Two };
                let r = fx.set_ad_order(o);
                if let Err(e) = r { std::mem::forget(e); steps.push(json!({"err": "set_ad_order"})); continue; }
            }
            "update" => {
                match quotes(&op["quotes"]) {
                    Err(_) => { steps.push(json!({"err": "quote"})); continue; }
                    Ok(q) => { if let Err(e) = fx.update(q) { std::mem::forget(e); let mut s = snapshot(&fx, &names); s["update_err"] = json!(true); steps.push(s); continue; } }
                }
            }
            _ => {}
        }
        steps.push(snapshot(&fx, &names));
    }
    if sc["roundtrip"].as_bool().unwrap_or(false) {
        use rateslib::json::JSON;
        let text = fx.to_json().unwrap();
        return match std::panic::catch_unwind(|| FXRates::from_json(&text)) {
            Ok(Ok(fx2)) => json!({"steps": steps, "reloaded": snapshot(&fx2, &names), "equal": fx2 == fx, "text": text}),
            Ok(Err(e)) => json!({"steps": steps, "reload_err": e.to_string()}),
            Err(_) => json!({"steps": steps, "reload_panic": true}),
        };
    }
    json!({"steps": steps})
}
