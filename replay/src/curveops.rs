//! Curve scenarios: build a CurveDF with one of the interpolators, apply set_ad_order steps, query values / index values.
use crate::calops::dt;
use crate::numops::{mkn, outn};
use indexmap::IndexMap;
use rateslib::calendars::{Cal, Convention, Modifier};
use rateslib::curves::{CurveDF, CurveInterpolation, FlatBackwardInterpolator, FlatForwardInterpolator, LinearInterpolator, LinearZeroRateInterpolator, LogLinearInterpolator, Nodes};
use rateslib::dual::{ADOrder, Dual, Dual2, Number};
use serde_json::{json, Value};

fn order(s: &str) -> ADOrder { match s { "Zero" => ADOrder::Zero, "One" => ADOrder::One, _ => ADOrder::Two } }

fn nodes(sc: &Value) -> Nodes {
    let items: Vec<(chrono::NaiveDateTime, Number)> = sc["nodes"].as_array().unwrap().iter().map(|p| (dt(p[0].as_i64().unwrap()), mkn(&p[1]))).collect();
    if sc["via_nodes_into_order"].as_bool().unwrap_or(false) {
        let m: IndexMap<chrono::NaiveDateTime, Number> = IndexMap::from_iter(items);
        return rateslib::verif_hooks::nodes_into_order(m, order(sc["ad"].as_str().unwrap()), sc["id"].as_str().unwrap());
    }
    match sc["nodes"][0][1]["kind"].as_str().unwrap() {
        "F64" => Nodes::F64(IndexMap::from_iter(items.into_iter().map(|(k, v)| (k, f64::from(v))))),
        "Dual" => Nodes::Dual(IndexMap::from_iter(items.into_iter().map(|(k, v)| (k, Dual::from(v))))),
        _ => Nodes::Dual2(IndexMap::from_iter(items.into_iter().map(|(k, v)| (k, Dual2::from(v))))),
    }
}

fn go<T: CurveInterpolation>(sc: &Value, interp: T) -> Value {
    let ib = sc["index_base"].as_f64();
    let mut c = match CurveDF::try_new(nodes(sc), interp, sc["id"].as_str().unwrap(), Convention::Act360, Modifier::ModF, ib, Cal::new(vec![], vec![])) {
        Ok(c) => c, Err(e) => { std::mem::forget(e); return json!({"err": "try_new"}); } };
    let mut out = vec![];
    let q = |c: &CurveDF<T, Cal>| -> Value {
        let vals: Vec<Value> = sc["queries"].as_array().unwrap().iter().map(|d| outn(&c.interpolated_value(&dt(d.as_i64().unwrap())))).collect();
        let idx: Vec<Value> = sc["queries"].as_array().unwrap().iter().map(|d| match c.index_value(&dt(d.as_i64().unwrap())) { Ok(n) => outn(&n), Err(e) => { std::mem::forget(e); json!({"err": true}) } }).collect();
        let ni: Vec<usize> = sc["queries"].as_array().unwrap().iter().map(|d| c.node_index(d.as_i64().unwrap() * 86400)).collect();
        json!({"values": vals, "index_values": idx, "node_index": ni})
    };
    out.push(q(&c));
    for op in sc["ops"].as_array().unwrap_or(&vec![]) {
        let r = c.set_ad_order(order(op["order"].as_str().unwrap()));
        if let Err(e) = r { std::mem::forget(e); out.push(json!({"err": true})); continue; }
        out.push(q(&c));
    }
    json!({"steps": out})
}

pub fn run(sc: &Value) -> Value {
    match sc["interp"].as_str().unwrap() {
        "linear" => go(sc, LinearInterpolator::new()),
        "log_linear" => go(sc, LogLinearInterpolator::new()),
        "linear_zero_rate" => go(sc, LinearZeroRateInterpolator::new()),
        "flat_forward" => go(sc, FlatForwardInterpolator::new()),
        "flat_backward" => go(sc, FlatBackwardInterpolator::new()),
        _ => json!({"error": "interp"}),
    }
}
