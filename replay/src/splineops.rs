//! B-spline basis and PPSpline scenarios.
use crate::dualops::{mk1, mk2, out1, out2};
use crate::numops::{mkn, outn};
use rateslib::dual::{Dual, Dual2, Number, NumberMapping};
use rateslib::splines::{bspldnev_single_f64, bsplev_single_f64, PPSpline};
use serde_json::{json, Value};

fn fv(v: &Value) -> Vec<f64> { v.as_array().unwrap().iter().map(|x| x.as_f64().unwrap()).collect() }

pub fn run(sc: &Value) -> Value {
    let k = sc["k"].as_u64().unwrap() as usize;
    let t = fv(&sc["t"]);
    match sc["kind"].as_str().unwrap() {
        "bspl" => {
            let x = sc["x"].as_f64().unwrap();
            let n = t.len() - k;
            let mut rows = vec![];
            for m in sc["ms"].as_array().unwrap() {
                let m = m.as_u64().unwrap() as usize;
                let vals: Vec<f64> = (0..n).map(|i| if m == 0 { bsplev_single_f64(&x, i, &k, &t, None) } else { bspldnev_single_f64(&x, i, &k, &t, m, None) }).collect();
                rows.push(json!(vals));
            }
            json!({"values": rows})
        }
        "ppspline" => {
            let tau = fv(&sc["tau"]);
            let (ln, rn) = (sc["left_n"].as_u64().unwrap() as usize, sc["right_n"].as_u64().unwrap() as usize);
            let lsq = sc["allow_lsq"].as_bool().unwrap_or(false);
            macro_rules! evals { ($pp:expr) => {{
                let mut outv = vec![];
                for e in sc["evals"].as_array().unwrap() {
                    let m = e["m"].as_u64().unwrap_or(0) as usize;
                    let xn = mkn(&e["x"]);
                    let r = match (&xn, e["via"].as_str().unwrap_or("ppdnev")) {
                        (_, "mapped") => $pp.mapped_value(&xn).map(|n| outn(&n)),
                        (Number::F64(f), _) => $pp.ppdnev_single(f, m).map(|v| outn(&Number::from(v))),
                        (Number::Dual(d), _) => $pp.ppdnev_single_dual(d, m).map(|v| outn(&Number::from(v))),
                        (Number::Dual2(d), _) => $pp.ppdnev_single_dual2(d, m).map(|v| outn(&Number::from(v))),
                    };
                    outv.push(match r { Ok(v) => v, Err(e) => { std::mem::forget(e); json!({"err": true}) } });
                }
                outv
            }}; }
            match sc["ty"].as_str().unwrap() {
                "F64" => {
                    let mut pp = PPSpline::<f64>::new(k, t, None);
                    let y: Vec<f64> = sc["y"].as_array().unwrap().iter().map(|v| v["f64"].as_f64().unwrap()).collect();
                    if let Err(e) = pp.csolve(&tau, &y, ln, rn, lsq) { std::mem::forget(e); return json!({"err": "csolve"}); }
                    json!({"c": pp.c().as_ref().unwrap().to_vec(), "evals": evals!(pp)})
                }
                "Dual" => {
                    let mut pp = PPSpline::<Dual>::new(k, t, None);
                    let y: Vec<Dual> = sc["y"].as_array().unwrap().iter().map(|v| mk1(v, None)).collect();
                    if let Err(e) = pp.csolve(&tau, &y, ln, rn, lsq) { std::mem::forget(e); return json!({"err": "csolve"}); }
                    json!({"c": pp.c().as_ref().unwrap().iter().map(out1).collect::<Vec<Value>>(), "evals": evals!(pp)})
                }
                _ => {
                    let mut pp = PPSpline::<Dual2>::new(k, t, None);
                    let y: Vec<Dual2> = sc["y"].as_array().unwrap().iter().map(|v| mk2(v, None)).collect();
                    if let Err(e) = pp.csolve(&tau, &y, ln, rn, lsq) { std::mem::forget(e); return json!({"err": "csolve"}); }
                    json!({"c": pp.c().as_ref().unwrap().iter().map(out2).collect::<Vec<Value>>(), "evals": evals!(pp)})
                }
            }
        }
        _ => json!({"error": "spline scenario"}),
    }
}
