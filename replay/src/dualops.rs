use num_traits::{Pow, Signed};
use rateslib::dual::{Dual, Dual2, MathFuncs};
use serde_json::{json, Value};

fn fvec(v: &Value) -> Vec<f64> { v.as_array().map(|a| a.iter().map(|x| x.as_f64().unwrap()).collect()).unwrap_or_default() }
fn svec(v: &Value) -> Vec<String> { v.as_array().map(|a| a.iter().map(|x| format!("v{}", x)).collect()).unwrap_or_default() }

pub fn mk1(v: &Value, share: Option<&Dual>) -> Dual {
    let d = fvec(&v["dual"]);
    match share {
        Some(o) => Dual::clone_from(o, v["real"].as_f64().unwrap(), ndarray::Array1::from_vec(d)),
        None => {
            if d.is_empty() { // try_new would fill ones for an empty dual; build through clone_from of an empty number
                let z = Dual::new(0.0, vec![]);
                Dual::clone_from(&z, v["real"].as_f64().unwrap(), ndarray::Array1::from_vec(vec![]))
            } else { Dual::try_new(v["real"].as_f64().unwrap(), svec(&v["vars"]), d).unwrap() }
        }
    }
}
pub fn mk2(v: &Value, share: Option<&Dual2>) -> Dual2 {
    let d = fvec(&v["dual"]);
    let n = d.len();
    let d2 = fvec(&v["dual2"]);
    match share {
        Some(o) => Dual2::clone_from(o, v["real"].as_f64().unwrap(), ndarray::Array1::from_vec(d), ndarray::Array2::from_shape_vec((n, n), d2).unwrap()),
        None => {
            if n == 0 {
                let z = Dual2::new(0.0, vec![]);
                Dual2::clone_from(&z, v["real"].as_f64().unwrap(), ndarray::Array1::from_vec(vec![]), ndarray::Array2::zeros((0, 0)))
            } else { Dual2::try_new(v["real"].as_f64().unwrap(), svec(&v["vars"]), d, d2).unwrap() }
        }
    }
}
pub fn out1(d: &Dual) -> Value {
    use rateslib::dual::{Vars, Gradient1};
    json!({"real": d.real(), "vars": d.vars().iter().cloned().collect::<Vec<String>>(), "dual": d.dual().to_vec()})
}
pub fn out2(d: &Dual2) -> Value {
    use rateslib::dual::{Vars, Gradient1, Gradient2};
    json!({"real": d.real(), "vars": d.vars().iter().cloned().collect::<Vec<String>>(), "dual": d.dual().to_vec(),
           "dual2": d.dual2().iter().cloned().collect::<Vec<f64>>()})
}

macro_rules! forms {
    ($op:tt, $a:expr, $b:expr, $ra:expr, $rb:expr) => {
        match ($ra, $rb) {
            (false, false) => $a.clone() $op $b.clone(),
            (true, false) => &$a $op $b.clone(),
            (false, true) => $a.clone() $op &$b,
            (true, true) => &$a $op &$b,
        }
    };
}
macro_rules! ops {
    ($o:expr, $a:expr, $b:expr, $ra:expr, $rb:expr) => {
        match $o {
            "add" => forms!(+, $a, $b, $ra, $rb),
            "sub" => forms!(-, $a, $b, $ra, $rb),
            "mul" => forms!(*, $a, $b, $ra, $rb),
            "div" => forms!(/, $a, $b, $ra, $rb),
            "rem" => forms!(%, $a, $b, $ra, $rb),
            _ => panic!("op"),
        }
    };
}

/// expression trees: ["add", l, r] | ["neg"|"exp"|"log"|"pow2"|"powp", u] | "x" | "y" | "c"
enum TV<T> { D(T), F(f64) }
macro_rules! tree_eval {
    ($name:ident, $T:ty) => {
        fn $name(t: &Value, x: &$T, y: &$T, c: f64, p: f64) -> TV<$T> {
            if let Some(s) = t.as_str() {
                return match s { "x" => TV::D(x.clone()), "y" => TV::D(y.clone()), _ => TV::F(c) };
            }
            let a = t.as_array().unwrap();
            let op = a[0].as_str().unwrap();
            if a.len() == 3 {
                let (l, r) = ($name(&a[1], x, y, c, p), $name(&a[2], x, y, c, p));
                return match (l, r) {
                    (TV::F(u), TV::F(v)) => TV::F(match op { "add" => u + v, "sub" => u - v, "mul" => u * v, _ => u / v }),
                    (TV::D(u), TV::F(v)) => TV::D(match op { "add" => &u + &v, "sub" => &u - &v, "mul" => &u * &v, _ => &u / &v }),
                    (TV::F(u), TV::D(v)) => TV::D(match op { "add" => &u + &v, "sub" => &u - &v, "mul" => &u * &v, _ => &u / &v }),
                    (TV::D(u), TV::D(v)) => TV::D(match op { "add" => &u + &v, "sub" => &u - &v, "mul" => &u * &v, _ => &u / &v }),
                };
            }
            match $name(&a[1], x, y, c, p) {
                TV::F(u) => TV::F(match op { "neg" => -u, "exp" => u.exp(), "log" => u.ln(), "pow2" => u.powf(2.0), _ => u.powf(p) }),
                TV::D(u) => TV::D(match op { "neg" => -&u, "exp" => u.exp(), "log" => u.log(), "pow2" => (&u).pow(2.0), _ => (&u).pow(p) }),
            }
        }
    };
}
tree_eval!(tree1, Dual);
tree_eval!(tree2, Dual2);

pub fn run(sc: &Value) -> Value {
    let two = sc["ty"].as_str() == Some("Dual2");
    if sc["kind"].as_str() == Some("dual_tree") {
        let (xv, yv, c, p) = (sc["x"].as_f64().unwrap(), sc["y"].as_f64().unwrap(), sc["c"].as_f64().unwrap(), sc["p"].as_f64().unwrap());
        return if !two {
            match tree1(&sc["tree"], &Dual::new(xv, vec!["v0".to_string()]), &Dual::new(yv, vec!["v1".to_string()]), c, p) {
                TV::D(d) => out1(&d), TV::F(f) => json!({"real": f, "vars": [], "dual": []}) }
        } else {
            match tree2(&sc["tree"], &Dual2::new(xv, vec!["v0".to_string()]), &Dual2::new(yv, vec!["v1".to_string()]), c, p) {
                TV::D(d) => out2(&d), TV::F(f) => json!({"real": f, "vars": [], "dual": [], "dual2": []}) }
        };
    }
    let kind = sc["kind"].as_str().unwrap();
    let op = sc["op"].as_str().unwrap_or("");
    let ra = sc["ref_a"].as_bool().unwrap_or(true);
    let rb = sc["ref_b"].as_bool().unwrap_or(true);
    let share = sc["share"].as_bool().unwrap_or(false);
    match kind {
        "dual_to_new_vars" => {
            use rateslib::dual::Vars;
            let target: indexmap::IndexSet<String> = svec(&sc["target"]).into_iter().collect();
            let arc = std::sync::Arc::new(target);
            if !two { out1(&mk1(&sc["a"], None).to_new_vars(&arc, None)) } else { out2(&mk2(&sc["a"], None).to_new_vars(&arc, None)) }
        }
        "dual_binop" => {
            let af = sc["a"].get("f64").and_then(|x| x.as_f64());
            let bf = sc["b"].get("f64").and_then(|x| x.as_f64());
            if !two {
                match (af, bf) {
                    (None, None) => { let a = mk1(&sc["a"], None); let b = mk1(&sc["b"], if share { Some(&a) } else { None }); out1(&ops!(op, a, b, ra, rb)) }
                    (None, Some(f)) => { let a = mk1(&sc["a"], None); out1(&ops!(op, a, f, ra, rb)) }
                    (Some(f), None) => { let b = mk1(&sc["b"], None); out1(&ops!(op, f, b, ra, rb)) }
                    _ => panic!("f64 op f64"),
                }
            } else {
                match (af, bf) {
                    (None, None) => { let a = mk2(&sc["a"], None); let b = mk2(&sc["b"], if share { Some(&a) } else { None }); out2(&ops!(op, a, b, ra, rb)) }
                    (None, Some(f)) => { let a = mk2(&sc["a"], None); out2(&ops!(op, a, f, ra, rb)) }
                    (Some(f), None) => { let b = mk2(&sc["b"], None); out2(&ops!(op, f, b, ra, rb)) }
                    _ => panic!("f64 op f64"),
                }
            }
        }
        "dual_binop_swapped" => {
            // b is built first so that a can share b's variable list (Arc); result is a op b
            if !two { let b = mk1(&sc["b"], None); let a = mk1(&sc["a"], if share { Some(&b) } else { None }); out1(&ops!(op, a, b, ra, rb)) }
            else { let b = mk2(&sc["b"], None); let a = mk2(&sc["a"], if share { Some(&b) } else { None }); out2(&ops!(op, a, b, ra, rb)) }
        }
        "dual_grad" => {
            use rateslib::dual::{Gradient1, Gradient2};
            let req = svec(&sc["req"]);
            match (two, sc["which"].as_str().unwrap()) {
                (false, "gradient1") => json!({"g1": mk1(&sc["a"], None).gradient1(req).to_vec()}),
                (true, "gradient1") => json!({"g1": mk2(&sc["a"], None).gradient1(req).to_vec()}),
                (true, "gradient2") => json!({"g2": mk2(&sc["a"], None).gradient2(req).iter().cloned().collect::<Vec<f64>>()}),
                (true, "manifold") => { let g = mk2(&sc["a"], None).gradient1_manifold(req); json!({"manifold": g.iter().map(|d| out2(d)).collect::<Vec<Value>>()}) }
                (true, "product_rule") => {
                    let a = mk2(&sc["a"], None); let b = mk2(&sc["b"], None);
                    let (ma, mb) = (a.gradient1_manifold(req.clone()), b.gradient1_manifold(req.clone()));
                    let ab = &a * &b;
                    let t: Vec<Value> = ma.iter().zip(mb.iter()).map(|(x, y)| out2(&(x * &b + &a * y))).collect();
                    json!({"terms": t, "ab_g1": ab.gradient1(req.clone()).to_vec(), "ab_g2": ab.gradient2(req).iter().cloned().collect::<Vec<f64>>()})
                }
                _ => json!({"error": "dual_grad variant"}),
            }
        }
        "dual_cmp" => {
            // a / b are dual numbers or {"f64": x}
            let af = sc["a"].get("f64").and_then(|x| x.as_f64());
            let bf = sc["b"].get("f64").and_then(|x| x.as_f64());
            fn enc(o: Option<std::cmp::Ordering>) -> Value { match o { None => json!(null), Some(x) => json!(x as i32) } }
            macro_rules! cmpall { ($x:expr, $y:expr) => { json!({"partial_cmp": enc($x.partial_cmp(&$y)), "lt": $x < $y, "le": $x <= $y, "gt": $x > $y, "ge": $x >= $y}) } }
            if !two {
                match (af, bf) {
                    (None, None) => { let a = mk1(&sc["a"], None); let b = mk1(&sc["b"], None); cmpall!(a, b) }
                    (None, Some(f)) => { let a = mk1(&sc["a"], None); cmpall!(a, f) }
                    (Some(f), None) => { let b = mk1(&sc["b"], None); cmpall!(f, b) }
                    _ => panic!("f64 cmp f64"),
                }
            } else {
                match (af, bf) {
                    (None, None) => { let a = mk2(&sc["a"], None); let b = mk2(&sc["b"], None); cmpall!(a, b) }
                    (None, Some(f)) => { let a = mk2(&sc["a"], None); cmpall!(a, f) }
                    (Some(f), None) => { let b = mk2(&sc["b"], None); cmpall!(f, b) }
                    _ => panic!("f64 cmp f64"),
                }
            }
        }
        "dual_sum" => {
            let terms = sc["terms"].as_array().unwrap();
            if !two { let v: Vec<Dual> = terms.iter().map(|t| mk1(t, None)).collect(); out1(&v.into_iter().sum::<Dual>()) }
            else { let v: Vec<Dual2> = terms.iter().map(|t| mk2(t, None)).collect(); out2(&v.into_iter().sum::<Dual2>()) }
        }
        "dual_identity" => {
            use num_traits::{One, Zero};
            if !two {
                let a = mk1(&sc["a"], None);
                json!({"zero_plus": out1(&(Dual::zero() + &a)), "plus_zero": out1(&(&a + Dual::zero())), "one_times": out1(&(Dual::one() * &a)),
                       "times_one": out1(&(&a * Dual::one())), "is_zero": a.is_zero()})
            } else {
                let a = mk2(&sc["a"], None);
                json!({"zero_plus": out2(&(Dual2::zero() + &a)), "plus_zero": out2(&(&a + Dual2::zero())), "one_times": out2(&(Dual2::one() * &a)),
                       "times_one": out2(&(&a * Dual2::one())), "is_zero": a.is_zero()})
            }
        }
        "dual_eq" => {
            if !two { let a = mk1(&sc["a"], None); let b = mk1(&sc["b"], if share { Some(&a) } else { None }); json!({"eq": a == b}) }
            else { let a = mk2(&sc["a"], None); let b = mk2(&sc["b"], if share { Some(&a) } else { None }); json!({"eq": a == b}) }
        }
        "dual_unop" => {
            let p = sc["p"].as_f64().unwrap_or(0.0);
            if !two {
                let a = mk1(&sc["a"], None);
                let r = match (op, ra) {
                    ("neg", true) => -&a, ("neg", false) => -a.clone(),
                    ("pow", true) => (&a).pow(p), ("pow", false) => a.clone().pow(p),
                    ("exp", _) => a.exp(), ("log", _) => a.log(), ("norm_cdf", _) => a.norm_cdf(), ("inv_norm_cdf", _) => a.inv_norm_cdf(),
                    ("abs", _) => a.abs(),
                    _ => panic!("unop"),
                };
                out1(&r)
            } else {
                let a = mk2(&sc["a"], None);
                let r = match (op, ra) {
                    ("neg", true) => -&a, ("neg", false) => -a.clone(),
                    ("pow", true) => (&a).pow(p), ("pow", false) => a.clone().pow(p),
                    ("exp", _) => a.exp(), ("log", _) => a.log(), ("norm_cdf", _) => a.norm_cdf(), ("inv_norm_cdf", _) => a.inv_norm_cdf(),
                    ("abs", _) => a.abs(),
                    _ => panic!("unop"),
                };
                out2(&r)
            }
        }
        _ => json!({"error": "unknown dual scenario"}),
    }
}
