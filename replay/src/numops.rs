//! Scenarios on the generic `Number` container, conversions and set_order.
use crate::dualops::{mk1, mk2, out1, out2};
use num_traits::{Pow, Signed, Zero, One};
use rateslib::dual::{set_order, set_order_clone, ADOrder, Dual, Dual2, MathFuncs, Number};
use serde_json::{json, Value};

pub fn mkn(v: &Value) -> Number {
    match v["kind"].as_str().unwrap() {
        "F64" => Number::F64(v["f64"].as_f64().unwrap()),
        "Dual" => Number::Dual(mk1(v, None)),
        _ => Number::Dual2(mk2(v, None)),
    }
}
pub fn outn(n: &Number) -> Value {
    match n {
        Number::F64(f) => json!({"kind": "F64", "real": f, "vars": [], "dual": [], "dual2": []}),
        Number::Dual(d) => { let mut o = out1(d); o["kind"] = json!("Dual"); o }
        Number::Dual2(d) => { let mut o = out2(d); o["kind"] = json!("Dual2"); o }
    }
}
fn order(s: &str) -> ADOrder { match s { "Zero" => ADOrder::Zero, "One" => ADOrder::One, _ => ADOrder::Two } }
fn svec(v: &Value) -> Vec<String> { v.as_array().map(|a| a.iter().map(|x| format!("v{}", x)).collect()).unwrap_or_default() }

macro_rules! forms {
    ($op:tt, $a:expr, $b:expr, $ra:expr, $rb:expr) => {
        match ($ra, $rb) {
            (false, false) => $a.clone() $op $b.clone(),
            (true, false) => &$a $op $b.clone(),
            (false, true) => $a.clone() $op &$b,
            (true, true) => &$a $op &$b,
        }
    };
}
macro_rules! ops {
    ($o:expr, $a:expr, $b:expr, $ra:expr, $rb:expr) => {
        match $o { "add" => forms!(+, $a, $b, $ra, $rb), "sub" => forms!(-, $a, $b, $ra, $rb), "mul" => forms!(*, $a, $b, $ra, $rb),
                   "div" => forms!(/, $a, $b, $ra, $rb), "rem" => forms!(%, $a, $b, $ra, $rb), _ => panic!("op") }
    };
}

pub fn run(sc: &Value) -> Value {
    let op = sc["op"].as_str().unwrap_or("");
    let ra = sc["ref_a"].as_bool().unwrap_or(true);
    let rb = sc["ref_b"].as_bool().unwrap_or(true);
    match sc["kind"].as_str().unwrap() {
        "number_binop" => {
            let af = sc["a"].get("bare_f64").and_then(|x| x.as_f64());
            let bf = sc["b"].get("bare_f64").and_then(|x| x.as_f64());
            match (af, bf) {
                (None, None) => { let (a, b) = (mkn(&sc["a"]), mkn(&sc["b"])); outn(&ops!(op, a, b, ra, rb)) }
                (None, Some(f)) => { let a = mkn(&sc["a"]); outn(&ops!(op, a, f, ra, rb)) }
                (Some(f), None) => { let b = mkn(&sc["b"]); outn(&ops!(op, f, b, ra, rb)) }
                _ => panic!("bare op bare"),
            }
        }
        "number_unop" => {
            let a = mkn(&sc["a"]);
            let p = sc["p"].as_f64().unwrap_or(0.0);
            let r = match (op, ra) {
                ("neg", true) => -&a, ("neg", false) => -a.clone(),
                ("pow", true) => (&a).pow(p), ("pow", false) => a.clone().pow(p),
                ("exp", _) => a.exp(), ("log", _) => a.log(), ("norm_cdf", _) => a.norm_cdf(), ("inv_norm_cdf", _) => a.inv_norm_cdf(),
                ("abs", _) => a.abs(),
                _ => panic!("unop"),
            };
            outn(&r)
        }
        "number_cmp" => {
            fn enc(o: Option<std::cmp::Ordering>) -> Value { match o { None => json!(null), Some(x) => json!(x as i32) } }
            let af = sc["a"].get("bare_f64").and_then(|x| x.as_f64());
            let bf = sc["b"].get("bare_f64").and_then(|x| x.as_f64());
            match (af, bf) {
                (None, None) => { let (a, b) = (mkn(&sc["a"]), mkn(&sc["b"])); json!({"eq": a == b, "partial_cmp": enc(a.partial_cmp(&b))}) }
                (None, Some(f)) => { let a = mkn(&sc["a"]); json!({"eq": a == f, "partial_cmp": enc(a.partial_cmp(&f))}) }
                (Some(f), None) => { let b = mkn(&sc["b"]); json!({"eq": f == b, "partial_cmp": enc(f.partial_cmp(&b))}) }
                _ => panic!("bare cmp bare"),
            }
        }
        "number_sum" => {
            let v: Vec<Number> = sc["terms"].as_array().unwrap().iter().map(mkn).collect();
            outn(&v.into_iter().sum::<Number>())
        }
        "number_identity" => {
            let a = mkn(&sc["a"]);
            json!({"zero_plus": outn(&(Number::zero() + &a)), "one_times": outn(&(Number::one() * &a)), "is_zero": a.is_zero()})
        }
        "set_order" => {
            let a = mkn(&sc["a"]);
            let r = if sc["clone"].as_bool().unwrap_or(false) { set_order_clone(&a, order(sc["order"].as_str().unwrap()), svec(&sc["vars"])) }
                    else { set_order(a, order(sc["order"].as_str().unwrap()), svec(&sc["vars"])) };
            outn(&r)
        }
        "from" => {
            // src: number json with kind, wrapped: bool (source is a Number), target: f64|Dual|Dual2|Number, by_ref
            let src = &sc["a"];
            let wrapped = sc["wrapped"].as_bool().unwrap_or(false);
            let by_ref = sc["by_ref"].as_bool().unwrap_or(false);
            let tgt = sc["target"].as_str().unwrap();
            let f = |x: f64| json!({"kind": "F64", "real": x, "vars": [], "dual": [], "dual2": []});
            let d1 = |d: Dual| { let mut o = out1(&d); o["kind"] = json!("Dual"); o };
            let d2 = |d: Dual2| { let mut o = out2(&d); o["kind"] = json!("Dual2"); o };
            if wrapped {
                let n = mkn(src);
                match (tgt, by_ref) {
                    ("f64", false) => f(f64::from(n)), ("f64", true) => f(f64::from(&n)),
                    ("Dual", false) => d1(Dual::from(n)), ("Dual", true) => d1(Dual::from(&n)),
                    ("Dual2", false) => d2(Dual2::from(n)), ("Dual2", true) => d2(Dual2::from(&n)),
                    _ => panic!("from wrapped"),
                }
            } else {
                match (src["kind"].as_str().unwrap(), tgt, by_ref) {
                    ("F64", "Dual", _) => d1(Dual::from(src["f64"].as_f64().unwrap())),
                    ("F64", "Dual2", _) => d2(Dual2::from(src["f64"].as_f64().unwrap())),
                    ("F64", "Number", false) => outn(&Number::from(src["f64"].as_f64().unwrap())),
                    ("F64", "Number", true) => outn(&Number::from(&src["f64"].as_f64().unwrap())),
                    ("Dual", "f64", false) => f(f64::from(mk1(src, None))), ("Dual", "f64", true) => f(f64::from(&mk1(src, None))),
                    ("Dual", "Dual2", false) => d2(Dual2::from(mk1(src, None))), ("Dual", "Dual2", true) => d2(Dual2::from(&mk1(src, None))),
                    ("Dual", "Number", false) => outn(&Number::from(mk1(src, None))), ("Dual", "Number", true) => outn(&Number::from(&mk1(src, None))),
                    ("Dual2", "f64", false) => f(f64::from(mk2(src, None))), ("Dual2", "f64", true) => f(f64::from(&mk2(src, None))),
                    ("Dual2", "Dual", false) => d1(Dual::from(mk2(src, None))), ("Dual2", "Dual", true) => d1(Dual::from(&mk2(src, None))),
                    ("Dual2", "Number", false) => outn(&Number::from(mk2(src, None))), ("Dual2", "Number", true) => outn(&Number::from(&mk2(src, None))),
                    _ => panic!("from"),
                }
            }
        }
        _ => json!({"error": "unknown number scenario"}),
    }
}
