//! Native replay of solver counterexamples: reads a JSON list of scenarios (file argument), runs each against the
//! real rateslib build and prints a JSON list of observations.  It only EXECUTES; the oracle lives in the check.
use serde_json::{json, Value};
use std::panic::{catch_unwind, AssertUnwindSafe};

mod dualops;
mod calops;
mod misc;
mod numops;
mod linalg;
mod fxops;
mod curveops;
mod splineops;

fn main() {
    let path = std::env::args().nth(1).expect("usage: vreplay <scenarios.json>");
    let txt = std::fs::read_to_string(&path).expect("read");
    let v: Value = serde_json::from_str(&txt).expect("json");
    std::panic::set_hook(Box::new(|_| {}));
    let mut out = vec![];
    for sc in v.as_array().expect("list") {
        let r = catch_unwind(AssertUnwindSafe(|| run(sc)));
        out.push(match r {
            Ok(v) => v,
            Err(e) => {
                let msg = e.downcast_ref::<String>().cloned().or_else(|| e.downcast_ref::<&str>().map(|s| s.to_string())).unwrap_or_default();
                json!({"panic": true, "msg": msg})
            }
        });
    }
    println!("{}", serde_json::to_string(&out).unwrap());
}

fn run(sc: &Value) -> Value {
    match sc["kind"].as_str().unwrap_or("") {
        k if k.starts_with("dual") => dualops::run(sc),
        k if k.starts_with("cal") => calops::run(sc),
        "linalg" => linalg::run(sc),
        "fx" => fxops::run(sc),
        "curve" => curveops::run(sc),
        "bspl" | "ppspline" => splineops::run(sc),
        k if k.starts_with("number") || k == "set_order" || k == "from" => numops::run(sc),
        _ => misc::run(sc),
    }
}
