"""Parser for the text produced by `rustc -Zunpretty=mir`: function/const items, locals, basic blocks,
statements, terminators, places, operands, rvalues.  Bodies are parsed lazily (on first execution)."""
import re
from .types import parse_type, split_top, match_close, split_path, Ty


class MirError(Exception):
    pass


# ------------------------------------------------------------------ places / operands
class Place:
    __slots__ = ("local", "proj", "_k")

    def __init__(self, local, proj=()):
        self.local = local      # int
        self.proj = tuple(proj)  # elems: ('deref',) ('field', i, tytext) ('downcast', name) ('index', local) ('cindex', i, fromend) ('subslice', a, b, fromend)

    def __repr__(self):
        return f"_{self.local}{list(self.proj) if self.proj else ''}"


_LOCAL = re.compile(r"_(\d+)")


def parse_place(s):
    s = s.strip()
    p, rest = _parse_place(s, 0)
    if rest != len(s):
        raise MirError("place trailing: " + s)
    return p


def _parse_place(s, i):
    # returns (Place, next index)
    if s[i] == "(":
        if s[i + 1] == "*":
            inner, j = _parse_place(s, i + 2)
            assert s[j] == ")", s
            p = Place(inner.local, inner.proj + (("deref",),))
            j += 1
        else:
            inner, j = _parse_place(s, i + 1)
            if s.startswith(" as ", j):
                k = match_close(s, i)
                var = s[j + 4:k].strip()
                p = Place(inner.local, inner.proj + (("downcast", var),))
                j = k + 1
            elif s[j] == ".":
                k = match_close(s, i)
                m = re.match(r"\.(\d+): ", s[j:])
                fi = int(m.group(1))
                ty = s[j + m.end():k]
                p = Place(inner.local, inner.proj + (("field", fi, ty),))
                j = k + 1
            elif s[j] == ")":
                p = inner; j += 1
            else:
                raise MirError("place? " + s)
    else:
        m = _LOCAL.match(s, i)
        if not m:
            raise MirError("place? " + s[i:])
        p = Place(int(m.group(1)))
        j = m.end()
    # postfix index projections
    while j < len(s) and s[j] == "[":
        k = match_close(s, j)
        inner = s[j + 1:k]
        m = _LOCAL.fullmatch(inner)
        if m:
            p = Place(p.local, p.proj + (("index", int(m.group(1))),))
        elif " of " in inner:
            a, b = inner.split(" of ")
            fromend = a.startswith("-")
            p = Place(p.local, p.proj + (("cindex", int(a.lstrip("-")), fromend),))
        elif ":" in inner:
            a, b = inner.split(":")
            fromend = b.startswith("-")
            p = Place(p.local, p.proj + (("subslice", int(a), int(b.lstrip("-")), fromend),))
        else:
            raise MirError("index? " + s)
        j = k + 1
    # direct field without parens does not occur
    return p, j


class Operand:
    __slots__ = ("kind", "place", "const", "cty")

    def __init__(self, kind, place=None, const=None, cty=None):
        self.kind = kind   # 'copy' 'move' 'const'
        self.place = place
        self.const = const  # text
        self.cty = cty

    def __repr__(self):
        return f"{self.kind} {self.place if self.place else self.const}"


def parse_operand(s):
    s = s.strip()
    if s.startswith("no_retag "):
        s = s[9:]
    if s.startswith("copy "):
        return Operand("copy", parse_place(s[5:]))
    if s.startswith("move "):
        return Operand("move", parse_place(s[5:]))
    if s.startswith("const "):
        return Operand("const", const=s[6:].strip())
    if re.match(r"^[\w<{]", s):
        return Operand("fnitem", const=s)     # a function item / tuple-constructor used as a value
    raise MirError("operand? " + s)


BINOPS = {"Add", "Sub", "Mul", "Div", "Rem", "BitXor", "BitAnd", "BitOr", "Shl", "Shr", "Eq", "Lt", "Le", "Ne", "Ge", "Gt",
          "Cmp", "Offset", "AddWithOverflow", "SubWithOverflow", "MulWithOverflow", "AddUnchecked", "SubUnchecked",
          "MulUnchecked", "ShlUnchecked", "ShrUnchecked"}
UNOPS = {"Not", "Neg", "PtrMetadata"}


class Rvalue:
    __slots__ = ("kind", "a", "b", "c", "d")

    def __init__(self, kind, a=None, b=None, c=None, d=None):
        self.kind, self.a, self.b, self.c, self.d = kind, a, b, c, d

    def __repr__(self):
        return f"Rv({self.kind}, {self.a}, {self.b}, {self.c})"


def parse_rvalue(s):
    s = s.strip()
    if s.startswith("no_retag "):
        s = s[9:]
    if s.startswith(("copy ", "move ", "const ")):
        # maybe a cast:  `move _1 as T (Kind)`
        if s.endswith(")") and not s.startswith("const \""):
            ko = _open_of_last(s, "(")
            head = s[:ko].rstrip()
            ia = _top_find(head, " as ")
            if ia > 0 and re.match(r"^\w+", s[ko + 1:]):
                return Rvalue("cast", parse_operand(head[:ia]), head[ia + 4:], s[ko + 1:-1])
        return Rvalue("use", parse_operand(s))
    if s.startswith("&raw "):
        mut = s.startswith("&raw mut ")
        return Rvalue("rawref", parse_place(s[9 if mut else 11:]), mut)
    if s.startswith("&"):
        r = s[1:]
        mut = False
        if r.startswith("mut "):
            mut = True; r = r[4:]
        elif r.startswith("fake shallow "):
            r = r[13:]
        elif r.startswith("fake "):
            r = r[5:]
        return Rvalue("ref", parse_place(r), mut)
    m = re.match(r"^(\w+)\((.*)\)$", s)
    if m and m.group(1) in BINOPS:
        a, b = split_top(m.group(2))
        return Rvalue("binop", m.group(1), parse_operand(a), parse_operand(b))
    if m and m.group(1) in UNOPS:
        return Rvalue("unop", m.group(1), parse_operand(m.group(2)))
    if m and m.group(1) == "discriminant":
        return Rvalue("discriminant", parse_place(m.group(2)))
    if m and m.group(1) in ("Len",):
        return Rvalue("len", parse_place(m.group(2)))
    if m and m.group(1) == "CopyForDeref":
        return Rvalue("use", Operand("copy", parse_place(m.group(2))))
    if m and m.group(1) in ("ShallowInitBox",):
        a, b = split_top(m.group(2))
        return Rvalue("use", parse_operand(a))
    if s.startswith("("):
        k = match_close(s, 0)
        if k == len(s) - 1:
            inner = s[1:-1].strip()
            parts = [p for p in split_top(inner) if p != ""] if inner else []
            return Rvalue("tuple", [parse_operand(p) for p in parts])
    if s.startswith("["):
        k = match_close(s, 0)
        if k == len(s) - 1:
            inner = s[1:-1]
            parts = split_top(inner, ";")
            if len(parts) == 2 and not inner.strip().startswith(("copy", "move")) or (len(parts) == 2 and _is_operand(parts[0])):
                if len(parts) == 2:
                    return Rvalue("repeat", parse_operand(parts[0]), parts[1].strip())
            ps = [p for p in split_top(inner) if p != ""]
            return Rvalue("array", [parse_operand(p) for p in ps])
    if s.startswith("{closure@") or s.startswith("{coroutine@"):
        k = match_close(s, 0)
        name = s[:k + 1]
        rest = s[k + 1:].strip()
        fields = []
        if rest.startswith("{"):
            inner = rest[1:match_close(rest, 0)].strip()
            for part in split_top(inner):
                if not part:
                    continue
                fn, op = part.split(":", 1)
                fields.append((fn.strip(), parse_operand(op)))
        return Rvalue("closure", name, fields)
    # aggregate:  Path { f: op, .. } | Path(op, ..) | Path   (unit / unit variant)
    # find top-level trailing group
    if s.endswith("}"):
        i = _open_of_last(s, "{")
        path = s[:i].strip()
        inner = s[i + 1:-1].strip()
        fields = []
        for part in split_top(inner):
            if not part:
                continue
            fn, op = part.split(":", 1)
            fields.append((fn.strip(), parse_operand(op)))
        return Rvalue("adt", path, fields, "named")
    if s.endswith(")"):
        i = _open_of_last(s, "(")
        path = s[:i].strip()
        inner = s[i + 1:-1].strip()
        ops = [parse_operand(p) for p in split_top(inner) if p != ""]
        return Rvalue("adt", path, [(str(n), o) for n, o in enumerate(ops)], "tuple")
    if re.match(r"^[\w:<>,' &\[\];()]+$", s):
        return Rvalue("adt", s, [], "unit")
    raise MirError("rvalue? " + s)


def _is_operand(s):
    return s.strip().startswith(("copy ", "move ", "const "))


def _balanced(s):
    try:
        d = 0
        for c in s:
            if c in "([{":
                d += 1
            elif c in ")]}":
                d -= 1
        return d == 0
    except Exception:
        return False


def _open_of_last(s, op):
    """index of the opening bracket matching the final char of s"""
    close = s[-1]
    depth = 0
    i = len(s) - 1
    while i >= 0:
        c = s[i]
        if c == '"':
            i -= 1
            while i >= 0 and not (s[i] == '"' and (i == 0 or s[i - 1] != "\\")):
                i -= 1
        elif c in ")]}":
            depth += 1
        elif c == ">" and not (i > 0 and s[i - 1] in "-="):
            depth += 1
        elif c in "([{<":
            depth -= 1
            if depth == 0:
                return i
        i -= 1
    raise MirError("unbalanced aggregate: " + s)


# ------------------------------------------------------------------ statements / terminators
class Stmt:
    __slots__ = ("kind", "place", "rv", "text")


class Term:
    __slots__ = ("kind", "op", "targets", "otherwise", "dest", "callee", "args", "target", "cond", "expected", "msg", "place", "text")


_TARGETS = re.compile(r"\[(.*)\]$")


def parse_stmt(line):
    st = Stmt()
    st.text = line
    if line.startswith(("StorageLive(", "StorageDead(", "ConstEvalCounter", "nop", "FakeRead(", "PlaceMention(",
                        "AscribeUserType(", "Coverage", "Retag(", "Deinit(", "BackwardIncompatibleDropHint")):
        st.kind = "nop"
        return st
    if line.startswith("assume("):
        st.kind = "nop"
        return st
    m = re.match(r"^discriminant\((.*)\) = (\d+)$", line)
    if m:
        st.kind = "setdiscr"; st.place = parse_place(m.group(1)); st.rv = int(m.group(2))
        return st
    i = _top_find(line, " = ")
    if i < 0:
        raise MirError("stmt? " + line)
    st.kind = "assign"
    st.place = parse_place(line[:i])
    st.rv = parse_rvalue(line[i + 3:])
    return st


def _top_find(s, pat):
    depth = 0
    i, n = 0, len(s)
    while i < n:
        c = s[i]
        if c == '"':
            i += 1
            while i < n and s[i] != '"':
                i += 2 if s[i] == "\\" else 1
        elif c in "([{":
            depth += 1
        elif c in ")]}":
            depth -= 1
        elif depth == 0 and s.startswith(pat, i):
            return i
        i += 1
    return -1


def parse_term(line):
    t = Term()
    t.text = line
    if line == "return":
        t.kind = "return"; return t
    if line in ("resume", "unreachable", "abort", "terminate", "unwind terminate", "coroutine_drop") or line.startswith("unwind terminate"):
        t.kind = "unreachable" if line == "unreachable" else "resume"; return t
    m = re.match(r"^goto -> bb(\d+)$", line)
    if m:
        t.kind = "goto"; t.target = int(m.group(1)); return t
    if line.startswith("switchInt("):
        k = match_close(line, 9)
        t.kind = "switch"
        t.op = parse_operand(line[10:k])
        tg = line[k + 1:].strip()
        assert tg.startswith("-> [") and tg.endswith("]"), line
        tg = tg[4:-1]
        t.targets = []
        t.otherwise = None
        for part in tg.split(", "):
            a, b = part.split(": ")
            if a == "otherwise":
                t.otherwise = int(b[2:])
            else:
                t.targets.append((int(a.split("_")[0]) if not a.startswith("-") else int(a.split("_")[0]), int(b[2:])))
        return t
    if line.startswith("drop("):
        k = match_close(line, 4)
        t.kind = "drop"; t.place = parse_place(line[5:k])
        m = re.search(r"return: bb(\d+)", line)
        t.target = int(m.group(1)) if m else None
        return t
    if line.startswith("assert("):
        k = match_close(line, 6)
        inner = line[7:k]
        parts = split_top(inner)
        c = parts[0]
        t.expected = True
        if c.startswith("!"):
            t.expected = False; c = c[1:]
        t.kind = "assert"; t.cond = parse_operand(c); t.msg = parts[1] if len(parts) > 1 else ""
        m = re.search(r"success: bb(\d+)", line)
        t.target = int(m.group(1))
        return t
    if line.startswith(("falseEdge", "falseUnwind")):
        m = re.search(r"real: bb(\d+)", line)
        t.kind = "goto"; t.target = int(m.group(1)); return t
    if line.startswith("yield(") or line.startswith("asm!") or line.startswith("tailcall"):
        t.kind = "unsupported"; return t
    # call:  DEST = CALLEE(ARGS) -> [return: bbN, unwind ...]   |  ... -> unwind ...
    i = line.rfind(" -> ")
    if i < 0:
        raise MirError("terminator? " + line)
    head, tail = line[:i], line[i + 4:]
    j = _top_find(head, " = ")
    t.kind = "call"
    t.dest = parse_place(head[:j])
    call = head[j + 3:]
    k = _open_of_last(call, "(")
    t.callee = call[:k].strip()
    inner = call[k + 1:-1].strip()
    t.args = [parse_operand(p) for p in split_top(inner) if p != ""]
    m = re.search(r"return: bb(\d+)", tail)
    t.target = int(m.group(1)) if m else None
    return t


# ------------------------------------------------------------------ functions
class Function:
    def __init__(self, header, kind, lines, index, lineno):
        self.header = header      # text before the body '{'
        self.kind = kind          # 'fn' | 'const' | 'static'
        self.lines = lines
        self.index = index
        self.lineno = lineno
        self._parsed = False
        self.path = None
        self.params = []          # [(local, Ty)]
        self.ret = None
        self._parse_header()

    def _parse_header(self):
        h = self.header
        if self.kind == "fn":
            body = h[3:]
            # split name(params) -> ret : the param list is the LAST top-level (...) group before ' -> ' or end
            i = _top_find_rev_params(body)
            self.path = body[:i].strip()
            k = match_close(body, i)
            ptxt = body[i + 1:k]
            rest = body[k + 1:].strip()
            self.ret = parse_type(rest[3:].strip()) if rest.startswith("->") else parse_type("()")
            self.params = []
            for p in split_top(ptxt):
                if not p:
                    continue
                m = re.match(r"^(?:mut )?_(\d+): (.*)$", p)
                self.params.append((int(m.group(1)), parse_type(m.group(2))))
        else:
            m = re.match(r"^(?:const|static(?: mut)?) (.*) =$", h)
            body = m.group(1)
            parts = split_top(body, ": ")
            self.path = parts[0].strip()
            self.ret = parse_type(": ".join(parts[1:]))
        segs = split_path(self.path)
        self.segs = segs
        self.name = segs[-1]
        self.is_closure = self.name.startswith("{closure#")
        self.impl_span = None
        for s in segs:
            if s.startswith("<impl at "):
                self.impl_span = s[9:-1]

    def parse_body(self):
        if self._parsed:
            return
        self.locals = {}
        self.blocks = {}
        self.debug = {}
        cur = None
        for raw in self.lines:
            l = raw.strip()
            if not l:
                continue
            if cur is None:
                m = re.match(r"^let (?:mut )?_(\d+): (.*);$", l)
                if m:
                    self.locals[int(m.group(1))] = parse_type(m.group(2))
                    continue
                m = re.match(r"^debug (\S+) => (.*);$", l)
                if m:
                    self.debug[m.group(1)] = m.group(2)
                    continue
                m = re.match(r"^bb(\d+)(?: \(cleanup\))?: \{$", l)
                if m:
                    cur = []
                    self.blocks[int(m.group(1))] = cur
                    continue
                continue  # scope braces etc
            else:
                if l == "}":
                    cur = None
                    continue
                cur.append(l[:-1] if l.endswith(";") else l)
        for lo, ty in self.params:
            self.locals[lo] = ty
        if 0 not in self.locals:
            self.locals[0] = self.ret
        self._pblocks = {}
        self._parsed = True

    def block(self, n):
        b = self._pblocks.get(n)
        if b is None:
            lines = self.blocks[n]
            stmts = [parse_stmt(x) for x in lines[:-1]]
            term = parse_term(lines[-1])
            b = (stmts, term)
            self._pblocks[n] = b
        return b


def _top_find_rev_params(body):
    """index of '(' opening the parameter list in 'path(params) -> ret' (last top-level '(' group followed by end or ' ->')"""
    depth = 0
    i, n = 0, len(body)
    cands = []
    while i < n:
        c = body[i]
        if c in "<[{":
            depth += 1
        elif c in "]}":
            depth -= 1
        elif c == ">" and not (i > 0 and body[i - 1] in "-="):
            depth -= 1
        elif c == "(":
            if depth == 0:
                k = match_close(body, i)
                cands.append((i, k))
                i = k
        i += 1
    for i, k in cands:
        rest = body[k + 1:].strip()
        if rest == "" or rest.startswith("->"):
            return i
    raise MirError("header? " + body)


class Program:
    def __init__(self, path):
        self.path = path
        self.functions = []
        self.by_name = {}
        self.by_path = {}
        self.allocs = {}
        self._load()

    def _load(self):
        with open(self.path) as f:
            lines = f.read().split("\n")
        i, n = 0, len(lines)
        idx = 0
        while i < n:
            l = lines[i]
            if (l.startswith("fn ") or l.startswith("const ") or l.startswith("static ")) and l.rstrip().endswith("{"):
                j = i + 1
                while j < n and lines[j] != "}":
                    j += 1
                hdr = l.rstrip()[:-1].rstrip()
                kind = "fn" if l.startswith("fn ") else ("const" if l.startswith("const ") else "static")
                try:
                    fn = Function(hdr, kind, lines[i + 1:j], idx, i + 1)
                except Exception as e:  # header we cannot parse: skip (pyo3 glue); recorded
                    fn = None
                if fn is not None:
                    self.functions.append(fn)
                    self.by_name.setdefault(fn.name, []).append(fn)
                    self.by_path.setdefault(fn.path, []).append(fn)
                    idx += 1
                i = j + 1
                continue
            m = re.match(r"^(alloc\d+) \(", l)
            if m:
                j = i + 1
                while j < n and lines[j].strip() != "}":
                    j += 1
                self.allocs[m.group(1)] = lines[i:j + 1]
                i = j + 1
                continue
            i += 1
