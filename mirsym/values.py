"""Runtime values of the MIR machine.  All values are immutable by convention; writes rebuild along a path."""
from .sym import F, is_sym


class Cell:
    __slots__ = ("v",)

    def __init__(self, v=None):
        self.v = v


class Struct:
    __slots__ = ("name", "fields")

    def __init__(self, name, fields):
        self.name = name
        self.fields = tuple(fields)

    def __repr__(self):
        return f"{self.name}{list(self.fields)}"


class Enum:
    __slots__ = ("name", "variant", "idx", "fields")

    def __init__(self, name, variant, idx, fields=()):
        self.name, self.variant, self.idx, self.fields = name, variant, idx, tuple(fields)

    def __repr__(self):
        return f"{self.name}::{self.variant}{list(self.fields) if self.fields else ''}"


class Tup:
    __slots__ = ("fields",)

    def __init__(self, items=()):
        self.fields = tuple(items)

    def __repr__(self):
        return "(" + ", ".join(map(repr, self.fields)) + ")"


UNIT = Tup(())


class Seq:
    """Vec<T>, [T; N], [T] — an immutable sequence"""
    __slots__ = ("items", "ety")

    def __init__(self, items, ety=None):
        self.items = tuple(items)
        self.ety = ety

    def __repr__(self):
        return "Seq" + repr(list(self.items))


class Str:
    """a concrete string (String / &str)"""
    __slots__ = ("s",)

    def __init__(self, s):
        self.s = s

    def __repr__(self):
        return f"Str({self.s!r})"


class Atom:
    """an opaque string identity: equality only.  id is a python int or a z3 Int"""
    __slots__ = ("id", "label")

    def __init__(self, id, label=None):
        self.id, self.label = id, label

    def __repr__(self):
        return f"Atom({self.label or self.id})"


class Ref:
    __slots__ = ("cell", "path", "mut")

    def __init__(self, cell, path=(), mut=False):
        self.cell, self.path, self.mut = cell, tuple(path), mut

    def __repr__(self):
        return f"Ref({list(self.path)})"


class ArcV:
    __slots__ = ("id", "v")

    def __init__(self, id, v):
        self.id, self.v = id, v

    def __repr__(self):
        return f"Arc#{self.id}({self.v!r})"


class BoxV:
    __slots__ = ("v",)

    def __init__(self, v):
        self.v = v


class Nd:
    """ndarray owned array or (read-only) view: row-major data"""
    __slots__ = ("shape", "data", "ety")

    def __init__(self, shape, data, ety=None):
        self.shape = tuple(shape)
        self.data = tuple(data)
        self.ety = ety
        n = 1
        for s in self.shape:
            n *= s
        assert n == len(self.data), (shape, len(self.data))

    def __repr__(self):
        return f"Nd{self.shape}{list(self.data)}"

    def at(self, *idx):
        if len(self.shape) == 1:
            return self.data[idx[0]]
        return self.data[idx[0] * self.shape[1] + idx[1]]


class NdMutView:
    """mutable view: writes go through to the owner via ref; idxmap maps view-flat-index -> owner-flat-index"""
    __slots__ = ("ref", "shape", "idxmap")

    def __init__(self, ref, shape, idxmap):
        self.ref, self.shape, self.idxmap = ref, tuple(shape), tuple(idxmap)


class SetV:
    __slots__ = ("items",)

    def __init__(self, items=()):
        self.items = tuple(items)

    def __repr__(self):
        return "Set" + repr(list(self.items))


class FreeSetV:
    """a set given only by its membership predicate (python callable value -> bool | z3 Bool): 'any set at all'"""
    __slots__ = ("pred", "label")

    def __init__(self, pred, label=""):
        self.pred, self.label = pred, label

    def __repr__(self):
        return f"FreeSet({self.label})"


class MapV:
    __slots__ = ("keys", "vals")

    def __init__(self, keys=(), vals=()):
        self.keys, self.vals = tuple(keys), tuple(vals)

    def __repr__(self):
        return "Map" + repr(list(zip(self.keys, self.vals)))


class Closure:
    __slots__ = ("fn", "fields", "name")

    def __init__(self, fn, fields, name):
        self.fn, self.fields, self.name = fn, tuple(fields), name

    def __repr__(self):
        return f"Closure({self.name[-30:]})"


class FnItem:
    __slots__ = ("text",)

    def __init__(self, text):
        self.text = text


class Opaque:
    __slots__ = ("tag", "payload")

    def __init__(self, tag, payload=None):
        self.tag, self.payload = tag, payload

    def __repr__(self):
        return f"Opaque({self.tag}, {self.payload!r})"


class NDT:
    """chrono::NaiveDateTime = (days since 1970-01-01, second of day)"""
    __slots__ = ("day", "sec")

    def __init__(self, day, sec=0):
        self.day, self.sec = day, sec

    def __repr__(self):
        return f"NDT({self.day},{self.sec})"


class NDate:
    __slots__ = ("day",)

    def __init__(self, day):
        self.day = day


class DaysV:
    __slots__ = ("n",)

    def __init__(self, n):
        self.n = n


class RangeV:
    __slots__ = ("lo", "hi", "inclusive")

    def __init__(self, lo, hi, inclusive=False):
        self.lo, self.hi, self.inclusive = lo, hi, inclusive


def some(v):
    return Enum("Option", "Some", 1, (v,))


NONE = Enum("Option", "None", 0, ())


def ok(v):
    return Enum("Result", "Ok", 0, (v,))


def err(v):
    return Enum("Result", "Err", 1, (v,))


def ordering(k):
    return Enum("Ordering", {-1: "Less", 0: "Equal", 1: "Greater"}[k], k, ())
