"""Path exploration: re-execute a harness once per path with a growing set of decision prefixes."""
import time, traceback
import z3
from .mirparse import Program
from .srcinfo import SrcInfo
from .machine import Machine, RustPanic, Unsupported, Budget, Infeasible
from . import models as _models, models_coll, models_nd
from .models import Models

_models.install(Machine)
try:
    from . import models_chrono  # noqa
except ImportError:
    pass

_WORLD = {}


def world(mir_path, repo):
    key = (mir_path, repo)
    if key not in _WORLD:
        _WORLD[key] = (Program(mir_path), SrcInfo(repo))
    return _WORLD[key]


class PathResult:
    __slots__ = ("prefix", "kind", "value", "detail", "machine")

    def __init__(self, prefix, kind, value=None, detail=None, machine=None):
        self.prefix, self.kind, self.value, self.detail, self.machine = prefix, kind, value, detail, machine


def explore(prog, src, harness, models=None, max_paths=5000, max_seconds=600, **mkw):
    """harness(m) runs one path: builds inputs, calls code, returns a list of check records.
    Returns dict(paths, leaves=[PathResult], undecided=[...], stats)"""
    models = models or Models()
    work = [()]
    leaves = []
    t0 = time.time()
    stats = {"paths": 0, "feas_checks": 0, "feas_time": 0.0, "steps": 0, "fns_run": set(), "models_used": set(),
             "unknown_feas": 0, "axioms": set()}
    undecided = []
    while work:
        if stats["paths"] >= max_paths or time.time() - t0 > max_seconds:
            undecided.append(f"exploration budget exhausted with {len(work)} prefixes pending")
            break
        prefix = work.pop()
        m = Machine(prog, src, models, prefix, **mkw)
        kind, val, detail = "ok", None, None
        try:
            val = harness(m)
        except Infeasible:
            kind = "infeasible"
        except RustPanic as e:
            kind, detail = "panic", e.msg
        except Unsupported as e:
            kind, detail = "unsupported", str(e) + "\n" + traceback.format_exc(limit=6)
        except Budget as e:
            kind, detail = "budget", str(e)
        stats["paths"] += 1
        stats["feas_checks"] += m.stats["feas_checks"]; stats["feas_time"] += m.stats["feas_time"]
        stats["steps"] += m.steps
        stats["fns_run"] |= m.stats["fns_run"]; stats["models_used"] |= m.stats["models_used"]
        stats["unknown_feas"] += m.unknown_feas
        stats["axioms"] |= set(m.axioms)
        work.extend(m.alts)
        leaves.append(PathResult(tuple(m.decisions), kind, val, detail, None))
        if kind in ("unsupported", "budget"):
            undecided.append(f"{kind}: {detail}")
    stats["wall_s"] = time.time() - t0
    return {"leaves": leaves, "undecided": undecided, "stats": stats}
