"""The MIR machine: forking dynamic symbolic execution by re-execution with a decision prefix.

One Machine object executes ONE path.  At a branch on a symbolic condition `decide()` consults the prefix; past the
end of the prefix it asks the solver which sides are feasible, follows one and records the other as a new prefix for the
explorer (explore.py).  Path condition and definitional side constraints (fresh quotients, trunc, UF axioms) live in one
incremental z3 solver."""
import re
import z3
from fractions import Fraction
from . import types as T
from .types import Ty, parse_type, parse_callee, subst, unify, count_params, deref_ty, INT_RANGES
from .mirparse import Program, Place, Operand, MirError
from .values import *
from .sym import *


class RustPanic(Exception):
    def __init__(self, msg):
        super().__init__(msg)
        self.msg = msg


class Unsupported(Exception):
    pass


class Budget(Exception):
    pass


class Infeasible(Exception):
    pass


class Frame:
    __slots__ = ("fn", "env", "cells")

    def __init__(self, fn, env):
        self.fn, self.env, self.cells = fn, env, {}


F64 = parse_type("f64")
USIZE = parse_type("usize")
BOOL = parse_type("bool")


class Machine:
    def __init__(self, prog, src, models, prefix=(), max_steps=400000, max_decisions=400, check_timeout_ms=5000):
        self.prog, self.src, self.models = prog, src, models
        self.solver = z3.Solver()
        self.solver.set("timeout", check_timeout_ms)
        self.prefix = list(prefix)
        self.decisions = []
        self.alts = []
        self.pc = []            # path condition conjuncts (for reporting)
        self.steps = 0
        self.max_steps, self.max_decisions = max_steps, max_decisions
        self.nfresh = 0
        self.arc_id = 0
        self.depth = 0
        self.const_cache = {}
        self.uf = {}
        self.stats = {"feas_checks": 0, "feas_time": 0.0, "calls": 0, "models_used": set(), "fns_run": set()}
        self.trace = None
        self.unknown_feas = 0
        self.axioms = []
        self.div_mode = "quot"
        self.div_guards = []
        self.defs = []          # definitional constraints only (fresh quotients, trunc, UF axioms)
        self.divisors = []
        self._qcache = {}

    # ------------------------------------------------------------ solver interface
    def fresh_real(self, name="r"):
        self.nfresh += 1
        return z3.Real(f"{name}!{self.nfresh}")

    def fresh_int(self, name="i"):
        self.nfresh += 1
        return z3.Int(f"{name}!{self.nfresh}")

    def fresh_bool(self, name="b"):
        self.nfresh += 1
        return z3.Bool(f"{name}!{self.nfresh}")

    def define(self, c):
        """definitional side constraint (always true on this path)"""
        self.solver.add(c)
        self.pc.append(c)
        self.defs.append(c)

    def assume(self, c):
        c = simp_bool(c)
        if c is True:
            return
        if c is False:
            raise Infeasible()
        self.solver.add(c)
        self.pc.append(c)

    def quotient(self, n, d):
        key = (n.get_id(), d.get_id())
        if key in self._qcache:
            return self._qcache[key]
        q = self.fresh_real("q")
        self.define(z3.Implies(d != 0, q * d == n))
        self.divisors.append(d)
        self._qcache[key] = q
        return q

    def check_defs_only(self, hyps, prop, timeout_ms=60000):
        """validity of (definitions and hyps) => prop, WITHOUT the branch conditions of the path (an algebraic identity
        that holds along the path's computation regardless of why the path was taken)"""
        s = z3.Solver()
        s.set("timeout", timeout_ms)
        for c in self.defs:
            s.add(c)
        for h in hyps:
            s.add(h)
        s.add(z3.Not(bz(prop)))
        r = s.check()
        return ("holds" if r == z3.unsat else "fails" if r == z3.sat else "unknown"), (s.model() if r == z3.sat else None)

    def ufun(self, name, *args):
        key = (name, len(args))
        f = self.uf.get(key)
        if f is None:
            f = z3.Function(name, *([z3.RealSort()] * (len(args) + 1)))
            self.uf[key] = f
        return f(*args)

    def _feasible(self, c):
        import time
        t0 = time.time()
        self.solver.push()
        self.solver.add(c)
        r = self.solver.check()
        self.solver.pop()
        self.stats["feas_checks"] += 1
        self.stats["feas_time"] += time.time() - t0
        if r == z3.unknown:
            self.unknown_feas += 1
            return True
        return r == z3.sat

    def decide(self, c):
        c = simp_bool(c)
        if c is True or c is False:
            return c
        k = len(self.decisions)
        if k >= self.max_decisions:
            raise Budget("too many symbolic decisions on one path")
        if k < len(self.prefix):
            d = self.prefix[k]
        elif getattr(self, "no_feas", False):
            # explore both sides without asking the solver (used where every branch combination is wanted anyway)
            self.alts.append(tuple(self.decisions) + (False,))
            d = True
        else:
            t = self._feasible(c)
            f = self._feasible(z3.Not(c))
            if t and f:
                self.alts.append(tuple(self.decisions) + (False,))
                d = True
            elif t:
                d = True
            elif f:
                d = False
            else:
                raise Infeasible()
        self.decisions.append(d)
        cc = c if d else z3.Not(c)
        self.solver.add(cc)
        self.pc.append(cc)
        return d

    def concretize(self, v, lo, hi):
        """fork a symbolic integer into its feasible concrete values in [lo, hi]"""
        if not is_sym(v):
            return v
        v = z3.simplify(v)
        if z3.is_int_value(v):
            return v.as_long()
        for k in range(lo, hi + 1):
            if self.decide(v == k):
                return k
        raise Infeasible()

    def check(self, prop, timeout_ms=20000):
        """is `prop` implied by the path condition?  -> ('holds'|'fails'|'unknown', model)"""
        prop = simp_bool(prop)
        if prop is True:
            return "holds", None
        self.solver.push()
        self.solver.set("timeout", timeout_ms)
        self.solver.add(z3.Not(bz(prop)))
        r = self.solver.check()
        model = self.solver.model() if r == z3.sat else None
        self.solver.pop()
        self.solver.set("timeout", 5000)
        return ("holds" if r == z3.unsat else "fails" if r == z3.sat else "unknown"), model

    # ------------------------------------------------------------ memory
    def load(self, cell, path):
        v = cell.v
        for p in path:
            v = self._proj(v, p)
        return v

    def _proj(self, v, p):
        k = p[0]
        if k == "f":
            if isinstance(v, (Struct, Enum, Tup, Closure)):
                return v.fields[p[1]]
            if isinstance(v, RangeV):
                return (v.lo, v.hi)[p[1]]
            raise Unsupported(f"field {p[1]} of {type(v).__name__} {v!r}")
        if k == "i":
            if isinstance(v, Seq):
                if p[1] >= len(v.items):
                    raise RustPanic("index out of bounds")
                return v.items[p[1]]
            if isinstance(v, Nd):
                return v.data[p[1]]
            raise Unsupported(f"index of {type(v).__name__}")
        if k == "inner":
            return v.v
        if k == "sub":
            return Seq(v.items[p[1]:p[2]], v.ety)
        if k == "mapval":
            return v.vals[p[1]]
        if k == "mapkey":
            return v.keys[p[1]]
        if k == "setitem":
            return v.items[p[1]]
        raise Unsupported(f"projection {p}")

    def store(self, cell, path, val):
        cell.v = self._upd(cell.v, path, 0, val)

    def _upd(self, v, path, i, val):
        if i == len(path):
            return val
        p = path[i]
        k = p[0]
        if k == "f":
            if isinstance(v, Struct):
                f = list(v.fields); f[p[1]] = self._upd(f[p[1]], path, i + 1, val); return Struct(v.name, f)
            if isinstance(v, Enum):
                f = list(v.fields); f[p[1]] = self._upd(f[p[1]], path, i + 1, val); return Enum(v.name, v.variant, v.idx, f)
            if isinstance(v, Tup):
                f = list(v.fields); f[p[1]] = self._upd(f[p[1]], path, i + 1, val); return Tup(f)
            if isinstance(v, Closure):
                f = list(v.fields); f[p[1]] = self._upd(f[p[1]], path, i + 1, val); return Closure(v.fn, f, v.name)
            if v is None:
                # partially initialised aggregate (field-by-field init): grow on demand
                f = [None] * (p[1] + 1); f[p[1]] = self._upd(None, path, i + 1, val); return Tup(f)
            raise Unsupported(f"store field into {type(v).__name__}")
        if k == "i":
            if isinstance(v, Seq):
                it = list(v.items)
                if p[1] >= len(it):
                    raise RustPanic("index out of bounds")
                it[p[1]] = self._upd(it[p[1]], path, i + 1, val); return Seq(it, v.ety)
            if isinstance(v, Nd):
                d = list(v.data); d[p[1]] = self._upd(d[p[1]], path, i + 1, val); return Nd(v.shape, d, v.ety)
            raise Unsupported(f"store index into {type(v).__name__}")
        if k == "inner":
            nv = self._upd(v.v, path, i + 1, val)
            return ArcV(v.id, nv) if isinstance(v, ArcV) else BoxV(nv)
        if k == "sub":
            sub = self._upd(Seq(v.items[p[1]:p[2]], v.ety), path, i + 1, val)
            it = list(v.items); it[p[1]:p[2]] = list(sub.items); return Seq(it, v.ety)
        if k == "mapval":
            vs = list(v.vals); vs[p[1]] = self._upd(vs[p[1]], path, i + 1, val); return MapV(v.keys, vs)
        raise Unsupported(f"store projection {p}")

    def deref(self, r):
        """value behind a reference-like value"""
        if isinstance(r, Ref):
            return self.load(r.cell, r.path)
        if isinstance(r, (BoxV, ArcV)):
            return r.v
        return r

    def strip(self, v):
        """follow references until a non-reference value"""
        while isinstance(v, Ref):
            v = self.load(v.cell, v.path)
        return v

    def write(self, r, val):
        if not isinstance(r, Ref):
            raise Unsupported("write through non-reference")
        self.store(r.cell, r.path, val)

    def temp_ref(self, v, mut=False):
        return Ref(Cell(v), (), mut)

    def new_arc(self, v):
        self.arc_id += 1
        return ArcV(self.arc_id, v)

    # ------------------------------------------------------------ places
    def lvalue(self, fr, place):
        cell = fr.cells.get(place.local)
        if cell is None:
            cell = fr.cells[place.local] = Cell()
        path = ()
        for p in place.proj:
            k = p[0]
            if k == "deref":
                v = self.load(cell, path)
                if isinstance(v, Ref):
                    cell, path = v.cell, v.path
                elif isinstance(v, (BoxV, ArcV)):
                    path = path + (("inner",),)
                elif isinstance(v, NdMutView):
                    raise Unsupported("deref of view")
                else:
                    raise Unsupported(f"deref of {type(v).__name__}: {v!r} in {fr.fn.path} {place}")
            elif k == "field":
                path = path + (("f", p[1]),)
            elif k == "downcast":
                pass
            elif k == "index":
                iv = fr.cells[p[1]].v
                cont = self.load(cell, path)
                n = len(cont.items) if isinstance(cont, Seq) else 64
                iv = self.concretize(iv, 0, max(n - 1, 0))
                path = path + (("i", iv),)
            elif k == "cindex":
                if p[2]:
                    cont = self.load(cell, path)
                    path = path + (("i", len(cont.items) - p[1]),)
                else:
                    path = path + (("i", p[1]),)
            elif k == "subslice":
                cont = self.load(cell, path)
                hi = len(cont.items) - p[2] if p[3] else p[2]
                path = path + (("sub", p[1], hi),)
        return cell, path

    def read_place(self, fr, place):
        cell, path = self.lvalue(fr, place)
        return self.load(cell, path)

    def place_type(self, fr, place):
        t = fr.fn.locals.get(place.local)
        if t is None:
            return parse_type("?unknown")
        t = subst(t, fr.env)
        for p in place.proj:
            k = p[0]
            if k == "deref":
                if t.k in ("ref", "ptr"):
                    t = t.args[0]
                elif t.k == "adt" and t.name in ("Box", "Arc", "Rc") and t.args:
                    t = t.args[0]
            elif k == "field":
                t = subst(parse_type(p[2]), fr.env)
            elif k in ("index", "cindex"):
                if t.k in ("array", "slice") or (t.k == "adt" and t.name == "Vec" and t.args):
                    t = t.args[0]
            elif k == "subslice":
                if t.k == "array":
                    t = Ty("slice", None, t.args)
        return t

    def operand_type(self, fr, op):
        if op.kind in ("copy", "move"):
            return self.place_type(fr, op.place)
        if op.kind == "const":
            return const_type(op.const, fr.env)
        return Ty("fn", op.const)

    # ------------------------------------------------------------ operands / constants
    def eval_operand(self, fr, op):
        if op.kind in ("copy", "move"):
            return self.read_place(fr, op.place)
        if op.kind == "fnitem":
            return FnItem(subst_text(op.const, fr.env))
        return self.eval_const(fr, op.const)

    def eval_const(self, fr, c):
        m = re.match(r"^(-?\d+)_(i8|i16|i32|i64|i128|isize|u8|u16|u32|u64|u128|usize)$", c)
        if m:
            return int(m.group(1))
        if c == "true":
            return True
        if c == "false":
            return False
        m = re.match(r"^(-?[0-9.]+(?:[eE][-+]?\d+)?)(f64|f32)$", c)
        if m:
            return F(Fraction(m.group(1)))
        if c in ("inff64", "+inff64"):
            return F(self.fresh_real("inf"))
        if c.startswith('"'):
            return Str(unescape(c[1:c.rindex('"')]))
        if c.startswith('b"'):
            raw = c[2:c.rindex('"')]
            return Opaque("bytes", bytes(raw, "utf-8").decode("unicode_escape").encode("latin-1"))
        if c == "()":
            return UNIT
        if c.startswith("'"):
            return ord(unescape(c[1:-1]))
        if c.startswith("ZeroSized: "):
            ty = subst(parse_type(c[11:]), fr.env)
            if ty.k == "closure":
                return self.make_closure(fr, ty.name, [])
            return FnItem(subst_text(c[11:], fr.env))
        if c.endswith("]") and "::promoted[" in c:
            return self.eval_promoted(fr, c)
        if c in ("RangeFull", "std::ops::RangeFull", "core::ops::RangeFull"):
            return Struct("RangeFull", [])
        if c.startswith("PhantomData") or "::PhantomData" in c.split("(")[0]:
            return Opaque("phantom")
        if c.startswith("{transmute(") or c.startswith("{alloc") or c.startswith("Slice"):
            raise Unsupported("raw constant " + c[:60])
        m = re.match(r"^(-?\d+)$", c)
        if m:
            return int(c)
        m = re.match(r"^(?:std::|core::)?(i8|i16|i32|i64|i128|isize|u8|u16|u32|u64|u128|usize)::(MIN|MAX)$", c)
        if m:
            lo, hi = INT_RANGES[m.group(1)]
            return lo if m.group(2) == "MIN" else hi
        m = re.match(r"^(?:std::|core::)?f64::(EPSILON|MAX|MIN|MIN_POSITIVE)$", c)
        if m:
            import sys as _s
            return F(Fraction({"EPSILON": _s.float_info.epsilon, "MAX": _s.float_info.max, "MIN": -_s.float_info.max, "MIN_POSITIVE": _s.float_info.min}[m.group(1)]))
        # named constant / static: evaluate its MIR body, or a model
        v = self.models.named_const(self, fr, c)
        if v is not None:
            return v
        return self.eval_named_const(fr, c)

    def eval_promoted(self, fr, c):
        n = c[c.rindex("["):]
        # the promoted body is printed right after its parent function
        base = fr.fn.path
        if "::promoted[" in base:
            base = base[:base.rindex("::promoted[")]
        name = base + "::promoted" + n
        cands = [f for f in self.prog.by_path.get(name, []) if f.index > fr.fn.index - 1]
        if not cands:
            cands = self.prog.by_path.get(name, [])
        if not cands:
            raise Unsupported("promoted const not found: " + name)
        fn = min(cands, key=lambda f: abs(f.index - fr.fn.index))
        key = ("prom", fn.index, tuple(sorted((k, repr(v)) for k, v in fr.env.items())))
        if key not in self.const_cache:
            self.const_cache[key] = self.run_function(fn, [], dict(fr.env))
        return self.const_cache[key]

    def eval_named_const(self, fr, c):
        path = c.split(": ")[0]
        segs = T.split_path(path)
        segs = [s for s in segs if not s.startswith("<") or s.startswith("<impl")]
        cands = []
        for f in self.prog.functions:
            if f.kind != "fn" and f.name == segs[-1]:
                fs = [s for s in f.segs]
                if fs[-len(segs):] == segs or (len(fs) <= len(segs) and segs[-len(fs):] == fs):
                    cands.append(f)
        if len(cands) != 1:
            raise Unsupported(f"named constant {c} ({len(cands)} candidates)")
        fn = cands[0]
        key = ("const", fn.index)
        if key not in self.const_cache:
            self.const_cache[key] = self.run_function(fn, [], {})
        return self.const_cache[key]

    # ------------------------------------------------------------ closures
    def make_closure(self, fr, name, fields):
        fn = self.find_closure_fn(name, fr.fn)
        return Closure((fn, dict(fr.env)), fields, name)

    def find_closure_fn(self, name, cur):
        idx = self.prog.__dict__.setdefault("_closure_idx", None)
        if idx is None:
            idx = {}
            for f in self.prog.functions:
                if f.is_closure and f.params:
                    t = deref_ty(f.params[0][1])
                    if t.k == "closure":
                        idx.setdefault(t.name, []).append(f)
            self.prog._closure_idx = idx
        cands = idx.get(name, [])
        if not cands:
            raise Unsupported("closure body not found: " + name)
        if len(cands) == 1:
            return cands[0]
        base = cur.path
        if "::promoted[" in base:
            base = base[:base.rindex("::promoted[")]
        while base.endswith("}") and "::{closure#" in base and not any(c.path.startswith(base + "::") for c in cands):
            base = base[:base.rindex("::{closure#")]
        near = [c for c in cands if c.path.startswith(base + "::") and c.index > cur.index - 2]
        if not near:
            near = [c for c in cands if c.path.startswith(base + "::")] or cands
        return min(near, key=lambda c: abs(c.index - cur.index))

    def call_closure(self, clv, args):
        """clv: Closure | FnItem | Ref to one; args: list of argument values"""
        holder = None
        v = clv
        while isinstance(v, Ref):
            holder = v
            v = self.load(v.cell, v.path)
        if isinstance(v, FnItem):
            return self.call_text(v.text, args)
        if not isinstance(v, Closure):
            raise Unsupported(f"call of non-closure {v!r}")
        fn, env = v.fn
        pty = fn.params[0][1]
        if pty.k == "ref":
            a0 = holder if holder is not None else self.temp_ref(v, True)
        else:
            a0 = v
        return self.run_function(fn, [a0] + list(args), dict(env))

    def call_text(self, text, args, argtys=None, destty=None, env=None):
        """call a function named by MIR path text with already evaluated args"""
        cal = parse_callee(text)
        if argtys is None:
            argtys = [self.value_type(a) for a in args]
        if destty is None:
            destty = cal.self_ty if (cal.trait in ("From", "Default", "Zero", "One") and cal.self_ty is not None) else Ty("other", "?")
        return self.dispatch(cal, args, argtys, destty, env or {})

    # ------------------------------------------------------------ runtime types
    def value_type(self, v):
        if isinstance(v, F):
            return F64
        if isinstance(v, bool):
            return BOOL
        if isinstance(v, Ref):
            return Ty("ref", None, (self.value_type(self.load(v.cell, v.path)),), v.mut)
        if isinstance(v, (Struct, Enum)):
            return Ty("adt", v.name, ())
        if isinstance(v, Tup):
            return Ty("tuple", None, tuple(self.value_type(x) for x in v.fields))
        if isinstance(v, Closure):
            return Ty("closure", v.name)
        if isinstance(v, ArcV):
            return Ty("adt", "Arc", (self.value_type(v.v),))
        if isinstance(v, BoxV):
            return Ty("adt", "Box", (self.value_type(v.v),))
        if isinstance(v, Seq):
            return Ty("adt", "Vec", (v.ety or (self.value_type(v.items[0]) if v.items else Ty("param", "_")),))
        if isinstance(v, (Str, Atom)):
            return Ty("adt", "String", ())
        if isinstance(v, NDT):
            return Ty("adt", "NaiveDateTime", ())
        if isinstance(v, Nd):
            e = v.ety or (self.value_type(v.data[0]) if v.data else Ty("param", "_"))
            return Ty("adt", "ArrayBase", (Ty("adt", "OwnedRepr", (e,)), Ty("adt", "Dim", (Ty("array", None, (USIZE,), str(len(v.shape))),))))
        return Ty("other", "?")

    # ------------------------------------------------------------ execution
    def run_function(self, fn, args, env):
        fn.parse_body()
        self.depth += 1
        if self.depth > 150:
            raise Budget("recursion depth")
        self.stats["fns_run"].add(fn.path)
        fr = Frame(fn, env)
        for (lo, ty), a in zip(fn.params, args):
            fr.cells[lo] = Cell(a)
        bb = 0
        try:
            while True:
                stmts, term = fn.block(bb)
                self.steps += len(stmts) + 1
                if self.steps > self.max_steps:
                    raise Budget("step budget")
                for st in stmts:
                    if st.kind == "assign":
                        v = self.eval_rvalue(fr, st.rv, st.place)
                        cell, path = self.lvalue(fr, st.place)
                        if path:
                            self.store(cell, path, v)
                        else:
                            cell.v = v
                    elif st.kind == "setdiscr":
                        raise Unsupported("SetDiscriminant")
                k = term.kind
                if k == "goto":
                    bb = term.target
                elif k == "return":
                    c = fr.cells.get(0)
                    return c.v if c is not None and c.v is not None else UNIT
                elif k == "switch":
                    bb = self.do_switch(fr, term)
                elif k == "call":
                    bb = self.do_call(fr, term)
                elif k == "drop":
                    bb = term.target
                elif k == "assert":
                    c = self.eval_operand(fr, term.cond)
                    okc = c if term.expected else b_not(c)
                    if self.decide(okc):
                        bb = term.target
                    else:
                        raise RustPanic("assert failed: " + term.msg)
                elif k == "unreachable":
                    raise Unsupported("reached `unreachable` in " + fn.path)
                else:
                    raise Unsupported("terminator " + term.text)
        finally:
            self.depth -= 1

    def do_switch(self, fr, term):
        v = self.eval_operand(fr, term.op)
        if isinstance(v, bool):
            v = 1 if v else 0
        if is_sym(v):
            if z3.is_bool(v):
                d = self.decide(v)
                want = 1 if d else 0
                for val, bb in term.targets:
                    if val == want:
                        return bb
                return term.otherwise
            for val, bb in term.targets:
                if self.decide(v == val):
                    return bb
            return term.otherwise
        for val, bb in term.targets:
            if val == v:
                return bb
        if isinstance(v, int) and v < 0:      # discriminants / negative constants are printed as unsigned bit patterns
            for val, bb in term.targets:
                if val in (v & 0xFF, v & 0xFFFF, v & 0xFFFFFFFF, v & 0xFFFFFFFFFFFFFFFF, v & ((1 << 128) - 1)):
                    return bb
        if term.otherwise is None:
            raise Unsupported("switch without target")
        return term.otherwise

    def do_call(self, fr, term):
        args = [self.eval_operand(fr, a) for a in term.args]
        argtys = [self.operand_type(fr, a) for a in term.args]
        destty = self.place_type(fr, term.dest)
        cal = parse_callee(term.callee)
        self.stats["calls"] += 1
        v = self.dispatch(cal, args, argtys, destty, fr.env)
        if term.target is None:
            raise Unsupported("diverging call returned: " + term.callee)
        cell, path = self.lvalue(fr, term.dest)
        if path:
            self.store(cell, path, v)
        else:
            cell.v = v
        return term.target

    # ------------------------------------------------------------ call dispatch
    def dispatch(self, cal, args, argtys, destty, env):
        self_ty = subst(cal.self_ty, env) if cal.self_ty is not None else None
        # closure / fn-item calls
        if cal.trait in ("Fn", "FnMut", "FnOnce") and cal.method in ("call", "call_mut", "call_once"):
            tup = args[1]
            return self.call_closure(args[0], list(tup.fields))
        # trait objects: take Self from the runtime value
        if self_ty is not None and (self_ty.k == "dyn" or self_ty.k == "param") and args:
            rt = self.value_type(self.strip(args[0]))
            if rt.k == "adt":
                self_ty = rt
        # engine-level overrides (model structs etc.)
        r = self.models.pre_dispatch(self, cal, self_ty, args, argtys, destty, env)
        if r is not NotImplemented:
            return r
        got = self.resolve_incrate(cal, self_ty, args, argtys, destty, env)
        if got is not None:
            fn, cenv = got
            return self.run_function(fn, args, cenv)
        mdl = self.models.lookup(cal, self_ty)
        if mdl is None:
            raise Unsupported("no model for callee: " + cal.text)
        self.stats["models_used"].add(mdl.__name__)
        return mdl(self, Call(cal, self_ty, args, argtys, destty, env))

    def resolve_incrate(self, cal, self_ty, args, argtys, destty, env):
        name = cal.method
        cands = self.prog.by_name.get(name)
        if not cands:
            return None
        if self.models.prefer_model(cal, self_ty):
            return None
        margs = [subst(a, env) for a in cal.margs]
        best = None
        for f in cands:
            if f.kind != "fn" or f.is_closure:
                continue
            if len(f.params) != len(args):
                continue
            hdr = self.src.impl_header(f.impl_span) if f.impl_span else None
            cenv = {}
            score = 0
            if self_ty is not None:
                # <X as Trait>::m   or  <impl Trait for X>::m
                if f.impl_span is None:
                    # trait default method:  path ends with Trait::m
                    if cal.trait is None or len(f.segs) < 2 or f.segs[-2] != cal.trait:
                        continue
                    cenv["Self"] = self_ty
                    score = 1
                elif hdr is not None:
                    tr, st, gens = hdr
                    if cal.trait is not None and (tr is None or tr.name != cal.trait):
                        continue
                    if cal.trait is None and tr is not None and False:
                        continue
                    if not unify(to_params(st, gens), self_ty, cenv):
                        continue
                    cenv["Self"] = self_ty
                    score = 3
                else:
                    score = 2   # macro / derive impl: signature decides
                    cenv["Self"] = self_ty
            else:
                pre = cal.prefix
                if f.impl_span is None:
                    # free function (or trait default called by path): suffix match of the path segments
                    want = [s for s in cal.segs if not (s.startswith("<") and not s.startswith("<impl"))]
                    have = f.segs
                    n = min(len(want), len(have))
                    if want[-n:] != have[-n:]:
                        continue
                    score = 3
                else:
                    if hdr is not None:
                        tr, st, gens = hdr
                        if pre is not None and st.name != pre and not (tr is not None and tr.name == pre):
                            continue
                        if cal.prefix_args and st.args:
                            if not unify(to_params(st, gens), Ty("adt", st.name, tuple(subst(a, env) for a in cal.prefix_args)), cenv):
                                continue
                        cenv["Self"] = subst(to_params(st, gens), cenv)
                        score = 3
                    else:
                        score = 1
            okk = True
            for (lo, pt), at in zip(f.params, argtys):
                if not unify(pt, at, cenv):
                    okk = False
                    break
            if not okk:
                continue
            if not unify(f.ret, destty, cenv):
                continue
            if f.impl_span is None and self_ty is None and margs:
                gens = self.fn_generics(f)
                for g, a in zip(gens, margs):
                    cenv.setdefault(g, a)
            spec = -sum(count_params(pt) for _, pt in f.params)
            key = (score, spec)
            if best is None or key > best[0]:
                best = (key, f, cenv)
        if best is None:
            return None
        return best[1], best[2]

    def fn_generics(self, f):
        """declared generic parameter names of a free fn, from the source (needed only when not inferable)"""
        cache = self.prog.__dict__.setdefault("_gen_cache", {})
        if f.path in cache:
            return cache[f.path]
        gens = []
        import os
        pat = re.compile(r"\bfn\s+" + re.escape(f.name) + r"\s*<([^>]*)>")
        for root, _, files in os.walk(os.path.join(self.src.repo, "rust")):
            for fl in files:
                if fl.endswith(".rs"):
                    try:
                        m = pat.search(open(os.path.join(root, fl)).read())
                    except OSError:
                        m = None
                    if m:
                        gens = [re.match(r"\w+", g.strip()).group(0) for g in m.group(1).split(",") if g.strip() and not g.strip().startswith("'")]
                        break
            if gens:
                break
        cache[f.path] = gens
        return gens

    # ------------------------------------------------------------ rvalues
    def eval_rvalue(self, fr, rv, dest):
        k = rv.kind
        if k == "use":
            return self.eval_operand(fr, rv.a)
        if k == "ref":
            cell, path = self.lvalue(fr, rv.a)
            return Ref(cell, path, rv.b)
        if k == "rawref":
            cell, path = self.lvalue(fr, rv.a)
            return Ref(cell, path, rv.b)
        if k == "binop":
            a = self.eval_operand(fr, rv.b)
            b = self.eval_operand(fr, rv.c)
            return self.binop(fr, rv.a, a, b, rv.b)
        if k == "unop":
            a = self.eval_operand(fr, rv.b)
            if rv.a == "Not":
                if isinstance(a, bool) or (is_sym(a) and z3.is_bool(a)):
                    return b_not(a)
                raise Unsupported("bitwise Not")
            if rv.a == "Neg":
                if isinstance(a, F):
                    return f_neg(a)
                return -a
            if rv.a == "PtrMetadata":
                v = self.strip(a)
                if isinstance(v, Seq):
                    return len(v.items)
                if isinstance(v, Str):
                    return len(v.s.encode())
                raise Unsupported("PtrMetadata of " + type(v).__name__)
        if k == "discriminant":
            v = self.read_place(fr, rv.a)
            if isinstance(v, Enum):
                return v.idx
            raise Unsupported(f"discriminant of {v!r}")
        if k == "len":
            v = self.read_place(fr, rv.a)
            return len(v.items)
        if k == "tuple":
            return Tup([self.eval_operand(fr, o) for o in rv.a])
        if k == "array":
            return Seq([self.eval_operand(fr, o) for o in rv.a])
        if k == "repeat":
            v = self.eval_operand(fr, rv.a)
            n = rv.b
            m = re.match(r"^(?:const )?(\d+)(?:_usize)?$", n)
            if not m:
                raise Unsupported("repeat length " + n)
            return Seq([v] * int(m.group(1)))
        if k == "closure":
            return self.make_closure(fr, rv.a, [self.eval_operand(fr, o) for _, o in rv.b])
        if k == "cast":
            return self.cast(fr, self.eval_operand(fr, rv.a), self.operand_type(fr, rv.a), subst(parse_type(rv.b), fr.env), rv.c)
        if k == "adt":
            return self.aggregate(fr, rv)
        raise Unsupported("rvalue " + k)

    def aggregate(self, fr, rv):
        path = rv.a
        segs = [s for s in T.split_path(path) if not s.startswith("<")]
        segs = [s.split("<")[0] for s in segs]
        ops = [(n, self.eval_operand(fr, o)) for n, o in rv.b]
        last = segs[-1]
        if len(segs) >= 2 and segs[-2] in self.src.enums:
            en = segs[-2]
            for vn, disc, fields in self.src.enums[en]:
                if vn == last:
                    if rv.c == "named":
                        d = dict(ops)
                        return Enum(en, vn, disc, [d[f] for f in fields])
                    return Enum(en, vn, disc, [v for _, v in ops])
            raise Unsupported(f"variant {last} of {en}")
        if last in self.src.structs:
            fields = self.src.structs[last]
            if rv.c == "named":
                d = dict(ops)
                return Struct(last, [d[f] for f in fields])
            return Struct(last, [v for _, v in ops])
        if last in self.src.enums and rv.c == "unit":
            raise Unsupported("enum as unit aggregate " + path)
        # unknown (foreign) struct: keep declaration order as printed
        return Struct(last, [v for _, v in ops])

    def int_range(self, ty):
        if ty is not None and ty.k == "prim" and ty.name in INT_RANGES:
            return INT_RANGES[ty.name]
        return None

    def binop(self, fr, op, a, b, aop=None):
        if isinstance(a, F) or isinstance(b, F):
            if op in ("Add", "Sub", "Mul", "Div", "Rem"):
                return f_bin(self, op.lower(), a, b)
            if op in ("Eq", "Ne", "Lt", "Le", "Gt", "Ge"):
                return f_cmp(op.lower(), a, b)
            raise Unsupported("float binop " + op)
        if isinstance(a, bool) or isinstance(b, bool) or (is_sym(a) and z3.is_bool(a)):
            if op in ("BitAnd",): return b_and(a, b)
            if op in ("BitOr",): return b_or(a, b)
            if op in ("Eq",): return b_eq(a, b)
            if op in ("Ne", "BitXor"): return b_not(b_eq(a, b))
            raise Unsupported("bool binop " + op)
        if op in ("Eq", "Ne", "Lt", "Le", "Gt", "Ge"):
            if isinstance(a, Enum) and isinstance(b, Enum):
                a, b = a.idx, b.idx
            return i_cmp(op.lower(), a, b)
        ty = self.operand_type(fr, aop) if aop is not None else None
        rng = self.int_range(ty)
        if op in ("AddWithOverflow", "SubWithOverflow", "MulWithOverflow"):
            v = i_bin(op[:3].lower(), a, b)
            if rng is None:
                raise Unsupported("overflow op on unknown int type")
            lo, hi = rng
            if not is_sym(v):
                of = not (lo <= v <= hi)
                return Tup([wrap_int(v, lo, hi), of])
            return Tup([v, z3.Or(v < lo, v > hi)])
        if op in ("Add", "Sub", "Mul", "AddUnchecked", "SubUnchecked", "MulUnchecked"):
            v = i_bin(op[:3].lower(), a, b)
            if rng is not None:
                v = wrap_int(v, *rng) if not is_sym(v) else v
            return v
        if op in ("Div", "Rem"):
            return i_bin(op.lower(), a, b)
        if op == "Cmp":
            if not is_sym(a) and not is_sym(b):
                return ordering((a > b) - (a < b))
            if self.decide(iz(a) < iz(b)):
                return ordering(-1)
            if self.decide(iz(a) == iz(b)):
                return ordering(0)
            return ordering(1)
        if not is_sym(a) and not is_sym(b):
            if op == "BitAnd": return a & b
            if op == "BitOr": return a | b
            if op == "BitXor": return a ^ b
            if op in ("Shl", "ShlUnchecked"):
                v = a << b
                return wrap_int(v, *rng) if rng else v
            if op in ("Shr", "ShrUnchecked"): return a >> b
        raise Unsupported(f"binop {op} on {a!r}, {b!r}")

    def cast(self, fr, v, fromty, toty, kind):
        if kind.startswith("PointerCoercion") or kind in ("PtrToPtr", "FnPtrToPtr", "PointerExposeProvenance"):
            return v
        if kind == "IntToInt":
            if isinstance(v, bool):
                v = 1 if v else 0
            if is_sym(v) and z3.is_bool(v):
                v = z3.If(v, 1, 0)
            if isinstance(v, Enum):
                v = v.idx
            rng = self.int_range(toty)
            if rng is None:
                if toty.k == "prim" and toty.name == "char":
                    return v
                raise Unsupported("IntToInt to " + T.show(toty))
            frng = self.int_range(fromty)
            if frng is not None and frng[0] >= rng[0] and frng[1] <= rng[1]:
                return v
            if not is_sym(v):
                return wrap_int(v, *rng)
            return wrap_int(v, *rng)
        if kind == "IntToFloat":
            if is_sym(v):
                return F(z3.ToReal(v))
            return F(Fraction(v))
        if kind == "FloatToInt":
            t = f_trunc(self, v)
            rng = self.int_range(toty)
            if not t.sym():
                iv = int(t.v)
                return max(rng[0], min(rng[1], iv)) if rng else iv
            iv = z3.ToInt(t.v)
            if rng:
                iv = z3.If(iv < rng[0], rng[0], z3.If(iv > rng[1], rng[1], iv))
            return iv
        if kind == "FloatToFloat":
            return v
        if kind == "Transmute":
            return v
        raise Unsupported("cast " + kind)


class Call:
    __slots__ = ("cal", "self_ty", "args", "argtys", "destty", "env")

    def __init__(self, cal, self_ty, args, argtys, destty, env):
        self.cal, self.self_ty, self.args, self.argtys, self.destty, self.env = cal, self_ty, args, argtys, destty, env


def to_params(t, gens):
    """turn identifiers that are declared impl generics into type parameters"""
    if not gens:
        return t
    if t.k == "adt" and not t.args and t.name in gens:
        return Ty("param", t.name)
    if not t.args:
        return t
    return Ty(t.k, t.name, tuple(to_params(a, gens) for a in t.args), t.extra)


def const_type(c, env):
    m = re.match(r"^-?\d+_(\w+)$", c)
    if m:
        return parse_type(m.group(1))
    m = re.match(r"^(?:std::|core::)?(i8|i16|i32|i64|i128|isize|u8|u16|u32|u64|u128|usize|f64)::[A-Z_]+$", c)
    if m:
        return parse_type(m.group(1))
    if re.match(r"^-?[0-9.]+(?:[eE][-+]?\d+)?f64$", c) or c in ("inff64",):
        return F64
    if c in ("true", "false"):
        return BOOL
    if c.startswith('"'):
        return parse_type("&str")
    if c == "()":
        return parse_type("()")
    if c.startswith("ZeroSized: "):
        return subst(parse_type(c[11:]), env)
    if ": " in c and not c.startswith("{"):
        try:
            return subst(parse_type(c.rsplit(": ", 1)[1]), env)
        except Exception:
            pass
    return Ty("other", c)


def subst_text(text, env):
    if not env:
        return text
    def rep(m):
        w = m.group(0)
        if w in env:
            return T.show(env[w])
        return w
    return re.sub(r"\b(Self|[A-Z][0-9]?)\b", rep, text)


def unescape(s):
    return bytes(s, "utf-8").decode("unicode_escape") if "\\" in s else s
