"""chrono model: a NaiveDateTime is (day number since 1970-01-01 : int | z3 Int, second of day).
Civil calendar arithmetic is the proleptic Gregorian civil-from-days / days-from-civil written with integer div/mod,
so it is exact for concrete and symbolic dates alike.  Also: a few str / HashMap helpers used by the calendar code."""
import z3, datetime
from .types import Ty, parse_type, deref_ty, show
from .values import *
from .sym import *
from .machine import RustPanic, Unsupported
from .models import model, REG, val_eq
from .models_coll import ListIt, MapV, map_from_pairs, as_list

EPOCH = datetime.date(1970, 1, 1)
DAY_MIN, DAY_MAX = -719162, 2932896      # 0001-01-01 .. 9999-12-31


def fdiv(a, b):
    """floor division by a positive constant"""
    if not is_sym(a):
        return a // b
    return a / b       # z3 Int division is floor for positive divisors


def fmod(a, b):
    if not is_sym(a):
        return a % b
    return a % b


def ite(c, a, b):
    if c is True:
        return a
    if c is False:
        return b
    return z3.If(c, iz(a), iz(b))


def days_from_civil(y, m, d):
    """y, m, d: int | z3 Int (m, d assumed valid) -> day number"""
    if not is_sym(y) and not is_sym(m) and not is_sym(d):
        return (datetime.date(y, m, d) - EPOCH).days
    le2 = i_cmp("le", m, 2)
    yy = ite(le2, i_bin("sub", y, 1), y)
    era = fdiv(yy, 400)
    yoe = yy - era * 400
    mp = ite(le2, i_bin("add", m, 9), i_bin("sub", m, 3))
    doy = fdiv(153 * iz(mp) + 2, 5) + iz(d) - 1
    doe = yoe * 365 + fdiv(yoe, 4) - fdiv(yoe, 100) + doy
    return era * 146097 + doe - 719468


def civil_from_days(dn):
    """-> (y, m, d) for a day number (int | z3 Int)"""
    if not is_sym(dn):
        dt = EPOCH + datetime.timedelta(days=dn)
        return dt.year, dt.month, dt.day
    z = dn + 719468
    era = fdiv(z, 146097)
    doe = z - era * 146097
    yoe = fdiv(doe - fdiv(doe, 1460) + fdiv(doe, 36524) - fdiv(doe, 146096), 365)
    y = yoe + era * 400
    doy = doe - (365 * yoe + fdiv(yoe, 4) - fdiv(yoe, 100))
    mp = fdiv(5 * doy + 2, 153)
    d = doy - fdiv(153 * mp + 2, 5) + 1
    m = z3.If(mp < 10, mp + 3, mp - 9)
    y = z3.If(m <= 2, y + 1, y)
    return y, m, d


def is_leap(y):
    if not is_sym(y):
        return (y % 4 == 0 and y % 100 != 0) or y % 400 == 0
    return z3.Or(z3.And(y % 4 == 0, y % 100 != 0), y % 400 == 0)


def month_len(y, m):
    if not is_sym(y) and not is_sym(m):
        return [31, 29 if is_leap(y) else 28, 31, 30, 31, 30, 31, 31, 30, 31, 30, 31][m - 1]
    feb = z3.If(bz(is_leap(y)), 29, 28)
    mm = iz(m)
    return z3.If(mm == 2, feb, z3.If(z3.Or(mm == 4, mm == 6, mm == 9, mm == 11), 30, 31))


def weekday_idx(dn):
    """0 = Monday .. 6 = Sunday"""
    return fmod(i_bin("add", dn, 3), 7)


def civil_cached(m, v):
    """(y, m, d) of a date value with per-path caching of the (costly) symbolic terms"""
    dn = v.day
    if not is_sym(dn):
        return civil_from_days(dn)
    cache = m.__dict__.setdefault("_civil_cache", {})
    k = dn.get_id()
    if k not in cache:
        y, mo, d = civil_from_days(dn)
        # name the components: fresh ints defined by the exact arithmetic (keeps later formulas small)
        yy, mm, dd = m.fresh_int("yr"), m.fresh_int("mo"), m.fresh_int("dy")
        m.define(z3.And(yy == y, mm == mo, dd == d, mm >= 1, mm <= 12, dd >= 1, dd <= 31))
        cache[k] = (yy, mm, dd)
    return cache[k]


def _date(m, v):
    v = m.strip(v)
    if isinstance(v, Opaque) and v.tag == "DateTimeUtc":
        v = v.payload
    if not isinstance(v, (NDT, NDate)):
        raise Unsupported("expected a date, got " + type(v).__name__)
    return v


WEEKDAYS = ["Mon", "Tue", "Wed", "Thu", "Fri", "Sat", "Sun"]


def weekday_enum(idx):
    if not is_sym(idx):
        return Enum("Weekday", WEEKDAYS[idx], idx, ())
    return Enum("Weekday", "?", idx, ())


@model("NaiveDate::from_ymd_opt")
def _from_ymd_opt(m, c):
    y, mo, d = c.args
    valid = b_and(b_and(i_cmp("ge", mo, 1), i_cmp("le", mo, 12)), b_and(i_cmp("ge", d, 1), b_and(i_cmp("ge", y, -262143), i_cmp("le", y, 262142))))
    if not m.decide(valid):
        return NONE
    ml = month_len(y, mo)
    if not m.decide(i_cmp("le", d, ml)):
        return NONE
    return some(NDate(days_from_civil(y, mo, d)))


@model("NaiveDate::and_hms_opt")
def _and_hms_opt(m, c):
    dt = _date(m, c.args[0])
    h, mi, s = c.args[1:4]
    okk = b_and(i_cmp("lt", h, 24), b_and(i_cmp("lt", mi, 60), i_cmp("lt", s, 60)))
    if not m.decide(okk):
        return NONE
    return some(NDT(dt.day, i_bin("add", i_bin("add", i_bin("mul", h, 3600), i_bin("mul", mi, 60)), s)))


@model("NaiveTime::from_hms_opt")
def _time_from_hms(m, c):
    h, mi, s = c.args[:3]
    okk = b_and(i_cmp("lt", h, 24), b_and(i_cmp("lt", mi, 60), i_cmp("lt", s, 60)))
    if not m.decide(okk):
        return NONE
    return some(Opaque("NaiveTime", i_bin("add", i_bin("add", i_bin("mul", h, 3600), i_bin("mul", mi, 60)), s)))


@model("NaiveDateTime::new")
def _ndt_new(m, c):
    return NDT(_date(m, c.args[0]).day, m.strip(c.args[1]).payload)


@model("NaiveDateTime::date")
def _ndt_date(m, c):
    return NDate(_date(m, c.args[0]).day)


@model("NaiveDateTime::parse_from_str")
def _parse_from_str(m, c):
    s, fmt = m.strip(c.args[0]), m.strip(c.args[1])
    if not isinstance(s, Str) or not isinstance(fmt, Str):
        raise Unsupported("parse_from_str on symbolic text")
    try:
        dt = datetime.datetime.strptime(s.s, fmt.s)
    except ValueError:
        return err(Opaque("ParseError"))
    return ok(NDT((dt.date() - EPOCH).days, dt.hour * 3600 + dt.minute * 60 + dt.second))


@model("Datelike::year")
def _year(m, c):
    return civil_cached(m, _date(m, c.args[0]))[0]


@model("Datelike::month")
def _month(m, c):
    return civil_cached(m, _date(m, c.args[0]))[1]


@model("Datelike::day")
def _day(m, c):
    return civil_cached(m, _date(m, c.args[0]))[2]


@model("Datelike::weekday")
def _weekday(m, c):
    return weekday_enum(weekday_idx(_date(m, c.args[0]).day))


@model("Datelike::ordinal")
def _ordinal(m, c):
    v = _date(m, c.args[0])
    y, _, _ = civil_cached(m, v)
    return i_bin("add", i_bin("sub", v.day, days_from_civil(y, 1, 1)), 1)


@model("Weekday::try_from", "Weekday::num_days_from_monday", "Weekday::number_from_monday")
def _weekday_try_from(m, c):
    if c.cal.method == "try_from":
        v = c.args[0]
        if not m.decide(i_cmp("le", v, 6)):
            return err(Opaque("OutOfRange"))
        v = m.concretize(v, 0, 6)
        return ok(weekday_enum(v))
    w = m.strip(c.args[0])
    return w.idx if c.cal.method == "num_days_from_monday" else i_bin("add", w.idx, 1)


@model("Days::new")
def _days_new(m, c):
    return DaysV(c.args[0])


def _shift(m, c, sign):
    a = _date(m, c.args[0])
    b = m.strip(c.args[1])
    if isinstance(b, DaysV):
        nd = i_bin("add" if sign > 0 else "sub", a.day, b.n)
        inr = b_and(i_cmp("ge", nd, DAY_MIN), i_cmp("le", nd, DAY_MAX))
        if not m.decide(inr):
            raise RustPanic("`NaiveDateTime + Days` overflowed")
        return NDT(nd, a.sec) if isinstance(a, NDT) else NDate(nd)
    if isinstance(b, Opaque) and b.tag == "TimeDelta":
        tot = i_bin("add" if sign > 0 else "sub", i_bin("add", i_bin("mul", a.day, 86400), a.sec), b.payload)
        return NDT(fdiv(tot, 86400), fmod(tot, 86400))
    if isinstance(b, (NDT, NDate)) and sign < 0:
        sa = i_bin("add", i_bin("mul", a.day, 86400), getattr(a, "sec", 0))
        sb = i_bin("add", i_bin("mul", b.day, 86400), getattr(b, "sec", 0))
        return Opaque("TimeDelta", i_bin("sub", sa, sb))
    return NotImplemented


_prev_add, _prev_sub = REG["Add::add"], REG["Sub::sub"]


@model("Add::add")
def _chrono_add(m, c):
    a = m.strip(c.args[0])
    if isinstance(a, (NDT, NDate)):
        r = _shift(m, c, +1)
        if r is not NotImplemented:
            return r
    return _prev_add(m, c)


@model("Sub::sub")
def _chrono_sub(m, c):
    a = m.strip(c.args[0])
    if isinstance(a, (NDT, NDate)):
        r = _shift(m, c, -1)
        if r is not NotImplemented:
            return r
    return _prev_sub(m, c)


@model("NaiveDateTime::checked_add_days", "NaiveDateTime::checked_sub_days")
def _checked_days(m, c):
    try:
        return some(_shift(m, c, +1 if "add" in c.cal.method else -1))
    except RustPanic:
        return NONE


@model("NaiveDateTime::signed_duration_since")
def _since(m, c):
    return _shift(m, c, -1)


@model("TimeDelta::num_days")
def _num_days(m, c):
    s = m.strip(c.args[0]).payload
    return i_bin("div", s, 86400)


@model("TimeDelta::num_seconds")
def _num_seconds(m, c):
    return m.strip(c.args[0]).payload


@model("NaiveDateTime::and_utc")
def _and_utc(m, c):
    return Opaque("DateTimeUtc", _date(m, c.args[0]))


@model("DateTime::timestamp")
def _timestamp(m, c):
    v = _date(m, c.args[0])
    return i_bin("add", i_bin("mul", v.day, 86400), v.sec)


@model("DateTime::from_timestamp")
def _from_timestamp(m, c):
    secs = c.args[0]
    day = fdiv(secs, 86400)
    inr = b_and(i_cmp("ge", day, DAY_MIN), i_cmp("le", day, DAY_MAX))
    if not m.decide(inr):
        return NONE
    return some(Opaque("DateTimeUtc", NDT(day, fmod(secs, 86400))))


@model("DateTime::naive_utc")
def _naive_utc(m, c):
    return _date(m, c.args[0])


# ------------------------------------------------------------------ strings / hash maps used by the calendar code
@model("str::to_lowercase", "str::to_ascii_lowercase")
def _to_lowercase(m, c):
    s = m.strip(c.args[0])
    if not isinstance(s, Str):
        raise Unsupported("to_lowercase of a symbolic string")
    return Str(s.s.lower())


@model("str::to_uppercase", "str::to_ascii_uppercase")
def _to_uppercase(m, c):
    return Str(m.strip(c.args[0]).s.upper())


@model("str::split")
def _split(m, c):
    s, p = m.strip(c.args[0]), m.strip(c.args[1])
    if isinstance(p, int):
        p = Str(chr(p))
    return ListIt([Str(x) for x in s.s.split(p.s)])


@model("str::trim")
def _trim(m, c):
    return Str(m.strip(c.args[0]).s.strip())


@model("str::contains")
def _str_contains(m, c):
    p = m.strip(c.args[1])
    return (chr(p) if isinstance(p, int) else p.s) in m.strip(c.args[0]).s


@model("str::chars")
def _chars(m, c):
    return ListIt([ord(ch) for ch in m.strip(c.args[0]).s])


@model("str::starts_with")
def _starts_with(m, c):
    return m.strip(c.args[0]).s.startswith(m.strip(c.args[1]).s)


@model("HashMap::from", "IndexMap::from", "HashMap::from_iter")
def _hashmap_from(m, c):
    return map_from_pairs(m, as_list(m, c.args[0]))


@model("HashSet::from_iter", "HashSet::from", "IndexSet::from_iter", "IndexSet::from")
def _hashset_from(m, c):
    from .models_coll import drain, into_it, set_from_items
    return set_from_items(m, drain(m, into_it(m, c.args[0])))
