"""Model of the ndarray subset used by the crate.  Owned arrays and read-only views are immutable `Nd` snapshots
(Rust's borrow rules make a snapshot equal to a live view); mutable views map view positions onto the owner."""
import z3
from .types import Ty, parse_type, deref_ty, show
from .values import *
from .sym import *
from .machine import RustPanic, Unsupported, Call
from .models import model, REG, STOP, num_binop, num_neg, as_list, ANY, elem_eq, val_eq
from .models_coll import ListIt, drain, into_it, get_it, It, collect_into


def _nd(m, v):
    v = m.strip(v)
    if isinstance(v, NdMutView):
        owner = m.deref(v.ref)
        return Nd(v.shape, [owner.data[i] for i in v.idxmap], owner.ety)
    if not isinstance(v, Nd):
        raise Unsupported("expected ndarray, got " + type(v).__name__)
    return v


def _elem_ty(d):
    """element type from ArrayBase<OwnedRepr<T>, ..>"""
    if d is not None and d.k == "adt" and d.name == "ArrayBase" and d.args and d.args[0].args:
        t = d.args[0].args[0]
        while t.k == "ref":
            t = t.args[0]
        return t
    return None


def _shape_of(m, s):
    s = m.strip(s) if isinstance(s, Ref) else s
    if isinstance(s, int):
        return (s,)
    if is_sym(s):
        return (m.concretize(s, 0, 16),)
    if isinstance(s, Tup):
        return tuple(m.concretize(x, 0, 16) for x in s.fields)
    if isinstance(s, Seq):
        return tuple(m.concretize(x, 0, 16) for x in s.items)
    raise Unsupported(f"shape {s!r}")


def _zero_of(m, ety, c):
    if ety is None or (ety.k == "prim" and ety.name == "f64"):
        return F(0)
    if ety.k == "prim":
        return 0
    return m.call_text(f"<{show(ety)} as Zero>::zero", [], [], ety, c.env)


def _one_of(m, ety, c):
    if ety is None or (ety.k == "prim" and ety.name == "f64"):
        return F(1)
    if ety.k == "prim":
        return 1
    return m.call_text(f"<{show(ety)} as One>::one", [], [], ety, c.env)


@model("ArrayBase::from_vec", "ArrayBase::from", "ArrayBase::from_iter")
def _from_vec(m, c):
    v = c.args[0]
    items = list(v.items) if isinstance(v, Seq) else drain(m, into_it(m, v))
    return Nd((len(items),), items, _elem_ty(c.destty))


@model("ArrayBase::zeros")
def _zeros(m, c):
    sh = _shape_of(m, c.args[0])
    ety = _elem_ty(c.destty)
    n = 1
    for s in sh:
        n *= s
    return Nd(sh, [_zero_of(m, ety, c) for _ in range(n)], ety)


@model("ArrayBase::ones")
def _ones(m, c):
    sh = _shape_of(m, c.args[0])
    ety = _elem_ty(c.destty)
    n = 1
    for s in sh:
        n *= s
    return Nd(sh, [_one_of(m, ety, c) for _ in range(n)], ety)


@model("ArrayBase::from_elem")
def _nd_from_elem(m, c):
    sh = _shape_of(m, c.args[0])
    n = 1
    for s in sh:
        n *= s
    return Nd(sh, [c.args[1]] * n, _elem_ty(c.destty))


@model("ArrayBase::eye")
def _eye(m, c):
    n = m.concretize(c.args[0], 0, 16)
    ety = _elem_ty(c.destty)
    return Nd((n, n), [(_one_of(m, ety, c) if i == j else _zero_of(m, ety, c)) for i in range(n) for j in range(n)], ety)


@model("ArrayBase::from_shape_vec")
def _from_shape_vec(m, c):
    sh = _shape_of(m, c.args[0])
    items = c.args[1].items
    n = 1
    for s in sh:
        n *= s
    if n != len(items):
        return err(Opaque("ShapeError"))
    return ok(Nd(sh, items, _elem_ty(c.destty.args[0]) if c.destty.args else None))


@model("ArrayBase::into_shape_with_order", "ArrayBase::into_shape", "ArrayBase::into_shape_clone")
def _into_shape(m, c):
    a = _nd(m, c.args[0])
    sh = _shape_of(m, c.args[1])
    n = 1
    for s in sh:
        n *= s
    if n != len(a.data):
        return err(Opaque("ShapeError"))
    return ok(Nd(sh, a.data, a.ety))


@model("ArrayBase::len")
def _nd_len(m, c):
    return len(_nd(m, c.args[0]).data)


@model("ArrayBase::len_of")
def _len_of(m, c):
    a = _nd(m, c.args[0])
    ax = m.strip(c.args[1])
    k = ax.fields[0] if isinstance(ax, Struct) else ax
    return a.shape[k]


@model("ArrayBase::nrows")
def _nrows(m, c):
    return _nd(m, c.args[0]).shape[0]


@model("ArrayBase::ncols")
def _ncols(m, c):
    return _nd(m, c.args[0]).shape[1]


@model("ArrayBase::dim")
def _dim(m, c):
    a = _nd(m, c.args[0])
    return a.shape[0] if len(a.shape) == 1 else Tup(a.shape)


@model("ArrayBase::shape")
def _shape(m, c):
    return m.temp_ref(Seq(_nd(m, c.args[0]).shape))


@model("ArrayBase::is_square")
def _is_square(m, c):
    a = _nd(m, c.args[0])
    return a.shape[0] == a.shape[1]


@model("ArrayBase::is_empty")
def _nd_is_empty(m, c):
    return len(_nd(m, c.args[0]).data) == 0


@model("ArrayBase::view", "ArrayBase::to_owned", "ArrayBase::into_owned", "ArrayBase::reborrow", "ArrayBase::to_shared")
def _view(m, c):
    return _nd(m, c.args[0])


@model("ArrayBase::t", "ArrayBase::reversed_axes")
def _t(m, c):
    a = _nd(m, c.args[0])
    if len(a.shape) == 1:
        return a
    r, cc = a.shape
    return Nd((cc, r), [a.data[i * cc + j] for j in range(cc) for i in range(r)], a.ety)


@model("ArrayBase::view_mut")
def _view_mut(m, c):
    r = c.args[0]
    v = m.deref(r)
    while isinstance(v, Ref):
        r = v
        v = m.deref(r)
    if isinstance(v, NdMutView):
        return v
    return NdMutView(r, v.shape, range(len(v.data)))


@model("ArrayBase::to_vec", "ArrayBase::into_raw_vec")
def _nd_to_vec(m, c):
    a = _nd(m, c.args[0])
    return Seq(a.data, a.ety)


@model("ArrayBase::into_raw_vec_and_offset")
def _into_raw_vec_and_offset(m, c):
    a = _nd(m, c.args[0])
    return Tup([Seq(a.data, a.ety), some(0)])


@model("ArrayBase::iter", "ArrayBase::iter_mut")
def _nd_iter(m, c):
    r = c.args[0]
    v = m.deref(r)
    while isinstance(v, Ref):
        r = v
        v = m.deref(r)
    if isinstance(v, NdMutView):
        return ListIt([Ref(v.ref.cell, v.ref.path + (("i", i),), True) for i in v.idxmap])
    return ListIt([Ref(r.cell, r.path + (("i", k),), r.mut) for k in range(len(v.data))])


@model("ArrayBase::into_iter")
def _nd_into_iter(m, c):
    return ListIt(_nd(m, c.args[0]).data)


def _lanes(a, axis):
    """list of 1-d Nd along `axis` positions: axis_iter(Axis(0)) yields rows"""
    if len(a.shape) == 1:
        return [Nd((), [x]) if False else x for x in a.data]
    r, cc = a.shape
    if axis == 0:
        return [Nd((cc,), a.data[i * cc:(i + 1) * cc], a.ety) for i in range(r)]
    return [Nd((r,), [a.data[i * cc + j] for i in range(r)], a.ety) for j in range(cc)]


@model("ArrayBase::axis_iter", "ArrayBase::outer_iter")
def _axis_iter(m, c):
    a = _nd(m, c.args[0])
    ax = 0
    if len(c.args) > 1:
        s = m.strip(c.args[1])
        ax = s.fields[0] if isinstance(s, Struct) else s
    return ListIt(_lanes(a, ax))


@model("ArrayBase::rows")
def _rows(m, c):
    return ListIt(_lanes(_nd(m, c.args[0]), 0))


@model("ArrayBase::lanes")
def _lanes_m(m, c):
    a = _nd(m, c.args[0])
    s = m.strip(c.args[1])
    ax = s.fields[0] if isinstance(s, Struct) else s
    # lanes(Axis(k)) iterates 1-d lanes ALONG axis k: for 2-d, Axis(1) -> rows, Axis(0) -> columns
    return ListIt(_lanes(a, 1 - ax if len(a.shape) == 2 else 0))


@model("ArrayBase::row")
def _row(m, c):
    a = _nd(m, c.args[0])
    i = m.concretize(c.args[1], 0, a.shape[0])
    if i >= a.shape[0]:
        raise RustPanic("ndarray: row index out of bounds")
    return _lanes(a, 0)[i]


@model("ArrayBase::column")
def _column(m, c):
    a = _nd(m, c.args[0])
    j = m.concretize(c.args[1], 0, a.shape[1])
    if j >= a.shape[1]:
        raise RustPanic("ndarray: column index out of bounds")
    return _lanes(a, 1)[j]


@model("ArrayBase::sum")
def _nd_sum(m, c):
    a = _nd(m, c.args[0])
    acc = _zero_of(m, a.ety or _elem_ty(c.argtys[0] if c.argtys else None), c) if a.data == () or True else None
    ety = a.ety or _elem_ty(c.argtys[0] if c.argtys else None)
    rng = m.int_range(ety) if ety is not None else None
    for x in a.data:
        acc = num_binop(m, "add", acc, x)
        if rng is not None and isinstance(acc, int) and not isinstance(acc, bool) and not (rng[0] <= acc <= rng[1]):
            # integer element type: the fold uses the checked `+` of the element type (overflow-checks are on in the dump, as in dev builds)
            raise RustPanic("attempt to add with overflow (ndarray sum over %s)" % ety.name)
    return acc


@model("ArrayBase::sum_axis")
def _sum_axis(m, c):
    a = _nd(m, c.args[0])
    s = m.strip(c.args[1])
    ax = s.fields[0] if isinstance(s, Struct) else s
    lanes = _lanes(a, 1 - ax)   # summing over axis `ax` leaves the other axis
    out = []
    for ln in lanes:
        acc = _zero_of(m, a.ety, c)
        for x in ln.data:
            acc = num_binop(m, "add", acc, x)
        out.append(acc)
    return Nd((len(out),), out, a.ety)


@model("ArrayBase::mapv", "ArrayBase::map")
def _mapv(m, c):
    a = _nd(m, c.args[0])
    f = Cell(c.args[1])
    byref = c.cal.method == "map"
    out = [m.call_closure(Ref(f, (), True), [m.temp_ref(x) if byref else x]) for x in a.data]
    return Nd(a.shape, out)


@model("ArrayBase::dot")
def _dot(m, c):
    a, b = _nd(m, c.args[0]), _nd(m, c.args[1])
    def ip(xs, ys):
        acc = F(0)
        for x, y in zip(xs, ys):
            acc = num_binop(m, "add", acc, num_binop(m, "mul", x, y))
        return acc
    if len(a.shape) == 1 and len(b.shape) == 1:
        return ip(a.data, b.data)
    if len(a.shape) == 2 and len(b.shape) == 1:
        return Nd((a.shape[0],), [ip(r.data, b.data) for r in _lanes(a, 0)])
    if len(a.shape) == 2 and len(b.shape) == 2:
        return Nd((a.shape[0], b.shape[1]), [ip(r.data, cc.data) for r in _lanes(a, 0) for cc in _lanes(b, 1)])
    raise Unsupported("dot shapes")


@model("ArrayBase::assign")
def _assign(m, c):
    r = c.args[0]
    src = _nd(m, c.args[1])
    v = m.deref(r)
    if isinstance(v, NdMutView):
        owner = m.deref(v.ref)
        d = list(owner.data)
        for k, i in enumerate(v.idxmap):
            d[i] = src.data[k]
        m.write(v.ref, Nd(owner.shape, d, owner.ety))
    else:
        m.write(r, Nd(v.shape, src.data, v.ety))
    return UNIT


@model("ArrayBase::clone_from", "Clone::clone_from")
def _clone_from(m, c):
    m.write(c.args[0], m.strip(c.args[1]))
    return UNIT


@model("ArrayBase::fill")
def _fill(m, c):
    r = c.args[0]
    v = m.deref(r)
    m.write(r, Nd(v.shape, [c.args[1]] * len(v.data), v.ety))
    return UNIT


def nd_index(m, r, cont, idx):
    idx = m.strip(idx) if isinstance(idx, Ref) else idx
    if isinstance(idx, Seq):
        ii = [m.concretize(x, 0, 16) for x in idx.items]
    elif isinstance(idx, Tup):
        ii = [m.concretize(x, 0, 16) for x in idx.fields]
    else:
        ii = [m.concretize(idx, 0, max(len(cont.data), 1))]
    if len(ii) != len(cont.shape) or any(i >= s or i < 0 for i, s in zip(ii, cont.shape)):
        raise RustPanic("ndarray: index out of bounds")
    flat = ii[0] if len(ii) == 1 else ii[0] * cont.shape[1] + ii[1]
    return Ref(r.cell, r.path + (("i", flat),), r.mut)


def view_index(m, view, idx):
    idx = m.strip(idx) if isinstance(idx, Ref) else idx
    if isinstance(idx, Seq):
        ii = [m.concretize(x, 0, 16) for x in idx.items]
    else:
        ii = [m.concretize(idx, 0, 64)]
    if len(ii) != len(view.shape) or any(i >= s for i, s in zip(ii, view.shape)):
        raise RustPanic("ndarray: index out of bounds")
    flat = ii[0] if len(ii) == 1 else ii[0] * view.shape[1] + ii[1]
    return Ref(view.ref.cell, view.ref.path + (("i", view.idxmap[flat]),), True)


# ------------------------------------------------------------------ s![] slicing
@model("SliceInfoElem::from")
def _sie_from(m, c):
    v = c.args[0]
    if isinstance(v, int) or is_sym(v):
        return Opaque("sie", ("index", v))
    if isinstance(v, Struct):
        if v.name == "RangeFrom":
            return Opaque("sie", ("slice", v.fields[0], None))
        if v.name == "Range":
            return Opaque("sie", ("slice", v.fields[0], v.fields[1]))
        if v.name == "RangeTo":
            return Opaque("sie", ("slice", 0, v.fields[0]))
        if v.name == "RangeFull":
            return Opaque("sie", ("slice", 0, None))
        if v.name == "RangeInclusive":
            return Opaque("sie", ("slice", v.fields[0], i_bin("add", v.fields[1], 1)))
    if isinstance(v, RangeV):
        return Opaque("sie", ("slice", v.lo, v.hi if not v.inclusive else i_bin("add", v.hi, 1)))
    raise Unsupported(f"SliceInfoElem::from {v!r}")


@model("SliceNextDim::next_in_dim", "SliceNextDim::next_out_dim")
def _next_dim(m, c):
    return Opaque("phantom")


@model("SliceInfo::new_unchecked", "SliceInfo::new")
def _sliceinfo(m, c):
    return Opaque("sliceinfo", [x.payload for x in as_list(m, c.args[0])])


def _slice_indices(m, shape, info):
    """-> (new shape, list of flat indices into the source)"""
    elems = info.payload
    axes = []
    for k, e in enumerate(elems):
        n = shape[k]
        if e[0] == "index":
            i = m.concretize(e[1], 0, n)
            if i >= n:
                raise RustPanic("ndarray: slice index out of bounds")
            axes.append(("index", [i]))
        else:
            lo = m.concretize(e[1], 0, n + 1)
            hi = n if e[2] is None else m.concretize(e[2], 0, n + 1)
            if lo > hi or hi > n:
                raise RustPanic("ndarray: slice out of bounds")
            axes.append(("slice", list(range(lo, hi))))
    if len(shape) == 1:
        kind, ix = axes[0]
        return (() if kind == "index" else (len(ix),)), ix
    (k0, i0), (k1, i1) = axes
    flat = [a * shape[1] + b for a in i0 for b in i1]
    nsh = tuple(len(ix) for kd, ix in axes if kd == "slice")
    return nsh, flat


@model("ArrayBase::slice")
def _slice(m, c):
    a = _nd(m, c.args[0])
    info = m.strip(c.args[1])
    nsh, flat = _slice_indices(m, a.shape, info)
    return Nd(nsh, [a.data[i] for i in flat], a.ety)


@model("ArrayBase::slice_mut")
def _slice_mut(m, c):
    r = c.args[0]
    v = m.deref(r)
    while isinstance(v, Ref):
        r = v
        v = m.deref(r)
    info = m.strip(c.args[1])
    if isinstance(v, NdMutView):
        nsh, flat = _slice_indices(m, v.shape, info)
        return NdMutView(v.ref, nsh, [v.idxmap[i] for i in flat])
    nsh, flat = _slice_indices(m, v.shape, info)
    return NdMutView(r, nsh, flat)


@model("ArrayBase::split_at")
def _split_at(m, c):
    v = c.args[0]
    ax = m.strip(c.args[1])
    ax = ax.fields[0] if isinstance(ax, Struct) else ax
    k = m.concretize(c.args[2], 0, 16)
    if isinstance(v, NdMutView):
        if len(v.shape) == 1:
            if k > v.shape[0]:
                raise RustPanic("split_at out of bounds")
            return Tup([NdMutView(v.ref, (k,), v.idxmap[:k]), NdMutView(v.ref, (v.shape[0] - k,), v.idxmap[k:])])
        r, cc = v.shape
        if ax == 0:
            if k > r:
                raise RustPanic("split_at out of bounds")
            return Tup([NdMutView(v.ref, (k, cc), v.idxmap[:k * cc]), NdMutView(v.ref, (r - k, cc), v.idxmap[k * cc:])])
        left = [v.idxmap[i * cc + j] for i in range(r) for j in range(k)]
        right = [v.idxmap[i * cc + j] for i in range(r) for j in range(k, cc)]
        return Tup([NdMutView(v.ref, (r, k), left), NdMutView(v.ref, (r, cc - k), right)])
    raise Unsupported("split_at on non-mut view")


@model("ArrayBase::row_mut")
def _row_mut(m, c):
    r = c.args[0]
    v = m.deref(r)
    i = m.concretize(c.args[1], 0, 16)
    if isinstance(v, Nd):
        v = NdMutView(r, v.shape, range(len(v.data)))
    if i >= v.shape[0]:
        raise RustPanic("row_mut out of bounds")
    cc = v.shape[1]
    return NdMutView(v.ref, (cc,), v.idxmap[i * cc:(i + 1) * cc])


@model("Zip::from")
def _zip_from(m, c):
    return Opaque("ndzip", [c.args[0]])


@model("Zip::and")
def _zip_and(m, c):
    z = c.args[0]
    return Opaque("ndzip", z.payload + [c.args[1]])


@model("Zip::for_each")
def _zip_for_each(m, c):
    z = c.args[0]
    parts = z.payload
    f = Cell(c.args[1])
    n = len(parts[0].idxmap)
    for k in range(n):
        refs = [Ref(p.ref.cell, p.ref.path + (("i", p.idxmap[k]),), True) for p in parts]
        m.call_closure(Ref(f, (), True), refs)
    return UNIT


# ------------------------------------------------------------------ arithmetic
def _is_nd(v):
    return isinstance(v, (Nd, NdMutView))


def nd_binop(m, op, a, b):
    sa, sb = m.strip(a), m.strip(b)
    if _is_nd(sa):
        sa = _nd(m, sa)
    if _is_nd(sb):
        sb = _nd(m, sb)
    if isinstance(sa, Nd) and isinstance(sb, Nd):
        if sa.shape != sb.shape:
            if len(sb.data) == 1:
                return Nd(sa.shape, [num_binop(m, op, x, sb.data[0]) for x in sa.data], sa.ety)
            # ndarray co-broadcasting (numpy rules): shapes are right-aligned, an axis of length 1 (or a missing axis) is repeated
            ra, rb = tuple(sa.shape), tuple(sb.shape)
            nd_ = max(len(ra), len(rb))
            pa, pb = (1,) * (nd_ - len(ra)) + ra, (1,) * (nd_ - len(rb)) + rb
            if all(x == y or x == 1 or y == 1 for x, y in zip(pa, pb)):
                import itertools
                out_shape = tuple(max(x, y) for x, y in zip(pa, pb))
                def at(arr, shp, idx):
                    k = 0
                    for d_, i_ in zip(shp, idx):
                        k = k * d_ + (0 if d_ == 1 else i_)
                    return arr.data[k]
                data = [num_binop(m, op, at(sa, pa, idx), at(sb, pb, idx)) for idx in itertools.product(*[range(d_) for d_ in out_shape])]
                return Nd(out_shape, data, sa.ety)
            raise RustPanic("ndarray: could not broadcast array from shape: %r to: %r" % (sb.shape, sa.shape))
        return Nd(sa.shape, [num_binop(m, op, x, y) for x, y in zip(sa.data, sb.data)], sa.ety)
    if isinstance(sa, Nd):
        return Nd(sa.shape, [num_binop(m, op, x, sb) for x in sa.data], sa.ety)
    return Nd(sb.shape, [num_binop(m, op, sa, y) for y in sb.data], sb.ety)


def _wrap_arith(op, prev):
    def f(m, c):
        a, b = m.strip(c.args[0]), m.strip(c.args[1])
        if _is_nd(a) or _is_nd(b):
            return nd_binop(m, op, c.args[0], c.args[1])
        return prev(m, c)
    f.__name__ = "_ndarith_" + op
    return f


for _t, _o in (("Add", "add"), ("Sub", "sub"), ("Mul", "mul"), ("Div", "div")):
    REG[f"{_t}::{_o}"] = _wrap_arith(_o, REG[f"{_t}::{_o}"])


_prev_neg = REG["Neg::neg"]


@model("Neg::neg")
def _nd_neg(m, c):
    a = m.strip(c.args[0])
    if _is_nd(a):
        a = _nd(m, a)
        return Nd(a.shape, [num_neg(m, x) for x in a.data], a.ety)
    return _prev_neg(m, c)


def _wrap_assign(op, prev):
    def f(m, c):
        cur = m.deref(c.args[0])
        if _is_nd(cur):
            m.write(c.args[0], nd_binop(m, op, cur, c.args[1]))
            return UNIT
        return prev(m, c)
    f.__name__ = "_ndassign_" + op
    return f


for _t, _o in (("AddAssign", "add"), ("SubAssign", "sub"), ("MulAssign", "mul"), ("DivAssign", "div")):
    REG[f"{_t}::{_o}_assign"] = _wrap_assign(_o, REG[f"{_t}::{_o}_assign"])
