"""Type and path syntax of rustc's MIR pretty-printer: a small recursive-descent parser, plus
substitution and unification (used for static resolution of calls, exactly as rustc resolved them)."""
import re
from functools import lru_cache


class Ty:
    __slots__ = ("k", "name", "args", "extra", "_h")

    def __init__(self, k, name=None, args=(), extra=None):
        self.k = k          # 'adt','ref','ptr','tuple','array','slice','closure','param','prim','dyn','fn','never','proj','other'
        self.name = name    # last path segment for adt/prim/param; full text for others
        self.args = tuple(args)
        self.extra = extra  # ref/ptr: mutability (bool); array: length text; adt: full path
        self._h = None

    def __eq__(self, o):
        return isinstance(o, Ty) and self.k == o.k and self.name == o.name and self.args == o.args and \
            (self.extra == o.extra if self.k in ("ref", "ptr", "array") else True)

    def __hash__(self):
        if self._h is None:
            self._h = hash((self.k, self.name, self.args))
        return self._h

    def __repr__(self):
        return show(self)


PRIMS = {"f64", "f32", "i8", "i16", "i32", "i64", "i128", "isize", "u8", "u16", "u32", "u64", "u128", "usize",
         "bool", "char", "str"}
INT_RANGES = {
    "i8": (-128, 127), "i16": (-32768, 32767), "i32": (-2**31, 2**31 - 1), "i64": (-2**63, 2**63 - 1),
    "i128": (-2**127, 2**127 - 1), "isize": (-2**63, 2**63 - 1),
    "u8": (0, 255), "u16": (0, 65535), "u32": (0, 2**32 - 1), "u64": (0, 2**64 - 1), "u128": (0, 2**128 - 1),
    "usize": (0, 2**64 - 1),
}
PARAM_RE = re.compile(r"^(Self|[A-Z][0-9]?|__[A-Z])$")


def show(t):
    if t.k == "ref":
        return "&" + ("mut " if t.extra else "") + show(t.args[0])
    if t.k == "ptr":
        return "*" + ("mut " if t.extra else "const ") + show(t.args[0])
    if t.k == "tuple":
        return "(" + ", ".join(show(a) for a in t.args) + ("," if len(t.args) == 1 else "") + ")"
    if t.k == "array":
        return "[" + show(t.args[0]) + "; " + str(t.extra) + "]"
    if t.k == "slice":
        return "[" + show(t.args[0]) + "]"
    if t.k in ("adt", "prim", "param"):
        return t.name + ("<" + ", ".join(show(a) for a in t.args) + ">" if t.args else "")
    return str(t.name)


def split_top(s, sep=","):
    """split s at top-level occurrences of sep (not inside <>, (), [], {} or string literals)"""
    out, depth, cur, i, n = [], 0, [], 0, len(s)
    while i < n:
        c = s[i]
        if c == '"':
            j = i + 1
            while j < n and s[j] != '"':
                j += 2 if s[j] == "\\" else 1
            cur.append(s[i:j + 1]); i = j + 1; continue
        if c == "'" and i + 2 < n and (s[i + 2] == "'" or (s[i + 1] == "\\" and i + 3 < n and s[i + 3] == "'")):
            j = s.index("'", i + 1 + (1 if s[i + 1] == "\\" else 0) + 0)
            j = i + 2 if s[i + 2] == "'" else i + 3
            cur.append(s[i:j + 1]); i = j + 1; continue
        if c in "<([{":
            depth += 1
        elif c in ")]}":
            depth -= 1
        elif c == ">":
            if i > 0 and s[i - 1] == "-":
                pass  # '->'
            elif i > 0 and s[i - 1] == "=":
                pass  # '=>'
            else:
                depth -= 1
        if depth == 0 and s.startswith(sep, i):
            out.append("".join(cur).strip()); cur = []; i += len(sep); continue
        cur.append(c); i += 1
    last = "".join(cur).strip()
    if last or out:
        out.append(last)
    return out


def match_close(s, i):
    """index of the bracket closing the one at s[i]"""
    op = s[i]
    depth = 0
    n = len(s)
    j = i
    while j < n:
        c = s[j]
        if c == '"':
            j += 1
            while j < n and s[j] != '"':
                j += 2 if s[j] == "\\" else 1
        elif c in "<([{":
            depth += 1
        elif c in ")]}":
            depth -= 1
            if depth == 0:
                return j
        elif c == ">" and not (j > 0 and s[j - 1] in "-="):
            depth -= 1
            if depth == 0:
                return j
        j += 1
    raise ValueError("unbalanced: " + s[i:i + 80])


def split_path(s):
    """split a path at top-level '::' -> list of segment strings"""
    return split_top(s, "::")


@lru_cache(maxsize=200000)
def parse_type(s):
    s = s.strip()
    if not s:
        return Ty("other", "")
    if s.startswith("&"):
        r = s[1:].lstrip()
        if r.startswith("'"):
            m = re.match(r"'\w+\s*", r)
            r = r[m.end():]
        mut = False
        if r.startswith("mut "):
            mut = True; r = r[4:]
        return Ty("ref", None, (parse_type(r),), mut)
    if s.startswith("*const ") or s.startswith("*mut "):
        mut = s.startswith("*mut ")
        return Ty("ptr", None, (parse_type(s[5 if mut else 7:]),), mut)
    if s == "!":
        return Ty("never", "!")
    if s.startswith("("):
        j = match_close(s, 0)
        if j == len(s) - 1:
            inner = s[1:-1].strip()
            if inner == "":
                return Ty("tuple", None, ())
            parts = [p for p in split_top(inner) if p != ""]
            return Ty("tuple", None, tuple(parse_type(p) for p in parts))
    if s.startswith("["):
        j = match_close(s, 0)
        if j == len(s) - 1:
            inner = s[1:-1]
            parts = split_top(inner, ";")
            if len(parts) == 2:
                return Ty("array", None, (parse_type(parts[0]),), parts[1].strip())
            return Ty("slice", None, (parse_type(inner),))
    if s.startswith("{closure@") or s.startswith("{async") or s.startswith("{coroutine"):
        return Ty("closure", s)
    if s.startswith("dyn ") or s.startswith("impl ") or s.startswith("(dyn "):
        return Ty("dyn", s)
    if s.startswith("for<") or s.startswith("fn(") or s.startswith("unsafe ") or s.startswith("extern "):
        return Ty("fn", s)
    if s.startswith("<"):
        return Ty("proj", s)
    segs = split_path(s)
    last = segs[-1]
    # generic args on the last segment:  Name<...>  (types) — turbofish `::<..>` appears as its own segment
    args = ()
    name = last
    if last.startswith("<") and len(segs) >= 2:
        # turbofish segment: Name::<args>
        args_txt = last[1:match_close(last, 0)]
        name = segs[-2]
        segs = segs[:-1]
        args = tuple(parse_type(a) for a in split_top(args_txt) if a and not a.startswith("'"))
    elif "<" in last:
        i = last.index("<")
        j = match_close(last, i)
        args_txt = last[i + 1:j]
        name = last[:i]
        args = tuple(parse_type(a) for a in split_top(args_txt) if a and not a.startswith("'"))
    if name in PRIMS and len(segs) == 1:
        return Ty("prim", name)
    if len(segs) == 1 and not args and PARAM_RE.match(name):
        return Ty("param", name)
    if name == "Box" and len(args) > 1:
        args = args[:1]   # drop allocator
    if name == "Vec" and len(args) > 1:
        args = args[:1]
    return Ty("adt", name, args, "::".join(segs[:-1] + [name]))


def subst(t, env):
    if not env:
        return t
    if t.k == "param":
        return env.get(t.name, t)
    if t.k == "closure" or not t.args:
        if t.k in ("dyn", "proj", "fn", "other") and t.name and env:
            return t
        return t
    na = tuple(subst(a, env) for a in t.args)
    if na == t.args:
        return t
    return Ty(t.k, t.name, na, t.extra)


def unify(pat, conc, env, strict_ref=True):
    """match declared type `pat` (may contain params) against concrete `conc`; extends env; False on mismatch.
    Unknown/opaque parts (dyn, proj, fn, other) match anything."""
    if pat.k == "param":
        if pat.name in env:
            return env[pat.name] == conc or _loose_eq(env[pat.name], conc)
        env[pat.name] = conc
        return True
    if conc.k == "param":   # caller type not fully known: accept
        return True
    if pat.k in ("dyn", "proj", "fn", "other") or conc.k in ("dyn", "proj", "fn", "other"):
        return True
    if pat.k != conc.k:
        # array vs slice coercions are explicit in MIR, so no leniency
        return False
    if pat.k in ("ref", "ptr"):
        return unify(pat.args[0], conc.args[0], env)
    if pat.k == "closure":
        return pat.name == conc.name
    if pat.k in ("adt", "prim"):
        if pat.name != conc.name:
            return False
        if len(pat.args) != len(conc.args):
            return True  # defaulted generics (allocators, hashers) printed or not
        return all(unify(a, b, env) for a, b in zip(pat.args, conc.args))
    if pat.k == "tuple":
        return len(pat.args) == len(conc.args) and all(unify(a, b, env) for a, b in zip(pat.args, conc.args))
    if pat.k in ("array", "slice"):
        return unify(pat.args[0], conc.args[0], env)
    return True


def _loose_eq(a, b):
    e = {}
    return unify(a, b, e) and not e


def count_params(t):
    if t.k == "param":
        return 1
    return sum(count_params(a) for a in t.args)


def deref_ty(t):
    while t.k == "ref":
        t = t.args[0]
    return t


# ---------------------------------------------------------------------------- callee paths
class Callee:
    __slots__ = ("text", "self_ty", "trait", "trait_args", "method", "margs", "prefix", "prefix_args", "segs")

    def __repr__(self):
        return f"Callee({self.text})"


@lru_cache(maxsize=100000)
def parse_callee(s):
    """`<X as Trait<A>>::m::<G>`  |  `a::b::Type::<G>::m::<G>`  |  `a::b::f::<G>`"""
    c = Callee()
    c.text = s
    c.self_ty = c.trait = None
    c.trait_args = c.margs = c.prefix_args = ()
    c.prefix = None
    segs = split_path(s)
    c.segs = segs
    # method generic args (turbofish as last segment)
    if len(segs) >= 2 and segs[-1].startswith("<") and not segs[-1].startswith("<impl"):
        c.margs = tuple(parse_type(a) for a in split_top(segs[-1][1:match_close(segs[-1], 0)]) if a and not a.startswith("'"))
        segs = segs[:-1]
    c.method = segs[-1]
    rest = segs[:-1]
    if rest and rest[0].startswith("<") and not rest[0].startswith("<impl"):
        q = rest[0]
        inner = q[1:match_close(q, 0)]
        parts = split_top(inner, " as ")
        c.self_ty = parse_type(parts[0])
        if len(parts) > 1:
            tr = parse_type(parts[1])
            c.trait = tr.name
            c.trait_args = tr.args
    elif rest:
        # type or module prefix; generic args may follow as a turbofish segment
        if rest[-1].startswith("<") and not rest[-1].startswith("<impl") and len(rest) >= 2:
            c.prefix_args = tuple(parse_type(a) for a in split_top(rest[-1][1:match_close(rest[-1], 0)]) if a and not a.startswith("'"))
            rest = rest[:-1]
        c.prefix = rest[-1]
        if rest[-1].startswith("<impl "):
            # `ndarray::impl_methods::<impl ArrayBase<..>>::len`  -> prefix type inside
            inner = rest[-1][1:match_close(rest[-1], 0)]
            inner = inner[5:]
            if " for " in inner:
                tr, ty = split_top(inner, " for ")[:2]
                t = parse_type(tr)
                c.trait, c.trait_args = t.name, t.args
                c.self_ty = parse_type(ty)
            else:
                c.self_ty = parse_type(inner)
            c.prefix = c.self_ty.name if c.self_ty.k in ("adt", "prim") else None
    return c
