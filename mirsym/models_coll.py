"""Models of Vec / slices / IndexSet / IndexMap / HashSet and of iterators (lazy python objects)."""
import z3
from .types import Ty, parse_type, deref_ty, show, subst
from .values import *
from .sym import *
from .machine import RustPanic, Unsupported, Call
from .models import model, REG, STOP, val_eq, elem_eq, num_binop, as_list, ANY


# ================================================================== iterator objects
class It:
    def next(self, m):
        raise NotImplementedError

    def next_back(self, m):
        raise Unsupported("next_back on " + type(self).__name__)

    def clone(self):
        raise Unsupported("clone of iterator " + type(self).__name__)


class ListIt(It):
    """iterates over a python list of ready values (element references or owned values)"""
    def __init__(self, items):
        self.items = list(items)
        self.lo, self.hi = 0, len(self.items)

    def next(self, m):
        if self.lo >= self.hi:
            return STOP
        v = self.items[self.lo]; self.lo += 1
        return v

    def next_back(self, m):
        if self.lo >= self.hi:
            return STOP
        self.hi -= 1
        return self.items[self.hi]

    def clone(self):
        c = ListIt(self.items); c.lo, c.hi = self.lo, self.hi
        return c

    def remaining(self):
        return self.hi - self.lo


class RangeIt(It):
    def __init__(self, lo, hi):
        self.lo, self.hi = lo, hi    # hi None = unbounded

    def next(self, m):
        if self.hi is not None and not m.decide(i_cmp("lt", self.lo, self.hi)):
            return STOP
        v = self.lo
        self.lo = i_bin("add", self.lo, 1)
        return v

    def next_back(self, m):
        if not m.decide(i_cmp("lt", self.lo, self.hi)):
            return STOP
        self.hi = i_bin("sub", self.hi, 1)
        return self.hi

    def clone(self):
        return RangeIt(self.lo, self.hi)


class MapIt(It):
    def __init__(self, inner, f):
        self.inner, self.f = inner, Cell(f)

    def next(self, m):
        v = self.inner.next(m)
        if v is STOP:
            return STOP
        return m.call_closure(Ref(self.f, (), True), [v])

    def next_back(self, m):
        v = self.inner.next_back(m)
        if v is STOP:
            return STOP
        return m.call_closure(Ref(self.f, (), True), [v])

    def clone(self):
        return MapIt(self.inner.clone(), self.f.v)


class ZipIt(It):
    def __init__(self, a, b):
        self.a, self.b = a, b

    def next(self, m):
        x = self.a.next(m)
        if x is STOP:
            return STOP
        y = self.b.next(m)
        if y is STOP:
            return STOP
        return Tup([x, y])

    def clone(self):
        return ZipIt(self.a.clone(), self.b.clone())


class EnumIt(It):
    def __init__(self, inner):
        self.inner, self.n = inner, 0

    def next(self, m):
        v = self.inner.next(m)
        if v is STOP:
            return STOP
        r = Tup([self.n, v]); self.n += 1
        return r

    def clone(self):
        c = EnumIt(self.inner.clone()); c.n = self.n
        return c


class FilterIt(It):
    def __init__(self, inner, f):
        self.inner, self.f = inner, Cell(f)

    def next(self, m):
        while True:
            v = self.inner.next(m)
            if v is STOP:
                return STOP
            keep = m.call_closure(Ref(self.f, (), True), [m.temp_ref(v)])
            if m.decide(keep):
                return v


class FilterMapIt(It):
    def __init__(self, inner, f):
        self.inner, self.f = inner, Cell(f)

    def next(self, m):
        while True:
            v = self.inner.next(m)
            if v is STOP:
                return STOP
            r = m.call_closure(Ref(self.f, (), True), [v])
            if r.variant == "Some":
                return r.fields[0]


class RevIt(It):
    def __init__(self, inner):
        self.inner = inner

    def next(self, m):
        return self.inner.next_back(m)

    def next_back(self, m):
        return self.inner.next(m)

    def clone(self):
        return RevIt(self.inner.clone())


class ClonedIt(It):
    def __init__(self, inner):
        self.inner = inner

    def next(self, m):
        v = self.inner.next(m)
        return v if v is STOP else m.deref(v)

    def next_back(self, m):
        v = self.inner.next_back(m)
        return v if v is STOP else m.deref(v)

    def clone(self):
        return ClonedIt(self.inner.clone())


class TakeIt(It):
    def __init__(self, inner, n):
        self.inner, self.n = inner, n

    def next(self, m):
        if self.n <= 0:
            return STOP
        self.n -= 1
        return self.inner.next(m)


class SkipIt(It):
    def __init__(self, inner, n):
        self.inner, self.n = inner, n

    def next(self, m):
        while self.n > 0:
            self.n -= 1
            if self.inner.next(m) is STOP:
                return STOP
        return self.inner.next(m)


class ChainIt(It):
    def __init__(self, a, b):
        self.a, self.b = a, b

    def next(self, m):
        if self.a is not None:
            v = self.a.next(m)
            if v is not STOP:
                return v
            self.a = None
        return self.b.next(m)


class ProductIt(It):
    """itertools::cartesian_product"""
    def __init__(self, a, b_items):
        self.a, self.b_items = a, list(b_items)
        self.cur, self.j = None, 0

    def next(self, m):
        if self.cur is None or self.j >= len(self.b_items):
            self.cur = self.a.next(m)
            self.j = 0
            if self.cur is STOP:
                return STOP
        if not self.b_items:
            return STOP
        v = Tup([self.cur, self.b_items[self.j]]); self.j += 1
        return v


def drain(m, it):
    out = []
    while True:
        v = it.next(m)
        if v is STOP:
            return out
        out.append(v)
        if len(out) > 5000:
            raise Unsupported("iterator too long")


def elem_refs(m, r, kind="i"):
    """list of references to the elements of the container behind reference r"""
    v = m.deref(r)
    base_cell, base_path, mut = r.cell, r.path, r.mut
    if isinstance(v, (ArcV, BoxV)):
        base_path = base_path + (("inner",),)
        v = v.v
    if isinstance(v, Ref):
        return elem_refs(m, v)
    if isinstance(v, Seq):
        return [Ref(base_cell, base_path + (("i", k),), mut) for k in range(len(v.items))]
    if isinstance(v, Nd):
        return [Ref(base_cell, base_path + (("i", k),), mut) for k in range(len(v.data))]
    if isinstance(v, SetV):
        return [Ref(base_cell, base_path + (("setitem", k),), False) for k in range(len(v.items))]
    raise Unsupported("elem_refs of " + type(v).__name__)


def get_it(m, v):
    """the python iterator object behind an iterator value / &mut iterator"""
    while isinstance(v, Ref):
        v = m.load(v.cell, v.path)
    if isinstance(v, It):
        return v
    if isinstance(v, (RangeV, Struct)) and (isinstance(v, RangeV) or v.name in ("Range", "RangeInclusive", "RangeFrom")):
        return into_it(m, v)
    raise Unsupported(f"not an iterator: {v!r}")


def into_it(m, v):
    if isinstance(v, It):
        return v
    if isinstance(v, Ref):
        inner = m.deref(v)
        if isinstance(inner, It):
            return inner
        if isinstance(inner, MapV):
            return ListIt([Tup([Ref(v.cell, v.path + (("mapkey", k),), False), Ref(v.cell, v.path + (("mapval", k),), v.mut)])
                           for k in range(len(inner.keys))])
        if isinstance(inner, Enum) and inner.name == "Option":
            return ListIt([Ref(v.cell, v.path + (("f", 0),), v.mut)] if inner.variant == "Some" else [])
        return ListIt(elem_refs(m, v))
    if isinstance(v, Seq):
        return ListIt(v.items)
    if isinstance(v, SetV):
        return ListIt(v.items)
    if isinstance(v, MapV):
        return ListIt([Tup([k, x]) for k, x in zip(v.keys, v.vals)])
    if isinstance(v, RangeV):
        hi = v.hi
        if v.inclusive:
            hi = i_bin("add", hi, 1)
        return RangeIt(v.lo, hi)
    if isinstance(v, Nd):
        return ListIt(v.data)
    if isinstance(v, Struct) and v.name == "Range":
        return RangeIt(v.fields[0], v.fields[1])
    if isinstance(v, Struct) and v.name == "RangeFrom":
        return RangeIt(v.fields[0], None)
    if isinstance(v, Struct) and v.name == "RangeInclusive":
        return RangeIt(v.fields[0], i_bin("add", v.fields[1], 1))
    if isinstance(v, Enum) and v.name == "Option":
        return ListIt([v.fields[0]] if v.variant == "Some" else [])
    raise Unsupported("into_iter of " + type(v).__name__)


# ================================================================== iterator trait
@model("IntoIterator::into_iter")
def _into_iter(m, c):
    return into_it(m, c.args[0])


@model("Iterator::next")
def _next(m, c):
    v = get_it(m, c.args[0]).next(m)
    return NONE if v is STOP else some(v)


@model("DoubleEndedIterator::next_back")
def _next_back(m, c):
    v = get_it(m, c.args[0]).next_back(m)
    return NONE if v is STOP else some(v)


@model("Iterator::map")
def _map(m, c):
    return MapIt(get_it(m, c.args[0]), c.args[1])


@model("Iterator::zip")
def _zip(m, c):
    return ZipIt(get_it(m, c.args[0]), into_it(m, c.args[1]))


@model("Iterator::enumerate")
def _enumerate(m, c):
    return EnumIt(get_it(m, c.args[0]))


@model("Iterator::filter")
def _filter(m, c):
    return FilterIt(get_it(m, c.args[0]), c.args[1])


@model("Iterator::filter_map")
def _filter_map(m, c):
    return FilterMapIt(get_it(m, c.args[0]), c.args[1])


@model("Iterator::rev")
def _rev(m, c):
    return RevIt(get_it(m, c.args[0]))


@model("Iterator::cloned", "Iterator::copied")
def _cloned(m, c):
    return ClonedIt(get_it(m, c.args[0]))


@model("Iterator::take")
def _take(m, c):
    return TakeIt(get_it(m, c.args[0]), m.concretize(c.args[1], 0, 64))


@model("Iterator::skip")
def _skip(m, c):
    return SkipIt(get_it(m, c.args[0]), m.concretize(c.args[1], 0, 64))


@model("Iterator::chain")
def _chain(m, c):
    return ChainIt(get_it(m, c.args[0]), into_it(m, c.args[1]))


@model("Iterator::by_ref")
def _by_ref(m, c):
    return c.args[0]


@model("Itertools::cartesian_product")
def _cartesian(m, c):
    b = into_it(m, c.args[1])
    return ProductIt(get_it(m, c.args[0]), drain(m, b))


@model("Itertools::combinations")
def _combinations(m, c):
    import itertools
    items = drain(m, get_it(m, c.args[0]))
    k = c.args[1]
    return ListIt([Seq(list(x)) for x in itertools.combinations(items, k)])


@model("Iterator::all")
def _all(m, c):
    it = get_it(m, c.args[0])
    f = Cell(c.args[1])
    while True:
        v = it.next(m)
        if v is STOP:
            return True
        if not m.decide(m.call_closure(Ref(f, (), True), [v])):
            return False


@model("Iterator::any")
def _any(m, c):
    it = get_it(m, c.args[0])
    f = Cell(c.args[1])
    while True:
        v = it.next(m)
        if v is STOP:
            return False
        if m.decide(m.call_closure(Ref(f, (), True), [v])):
            return True


@model("Iterator::find")
def _find(m, c):
    it = get_it(m, c.args[0])
    f = Cell(c.args[1])
    while True:
        v = it.next(m)
        if v is STOP:
            return NONE
        if m.decide(m.call_closure(Ref(f, (), True), [m.temp_ref(v)])):
            return some(v)


@model("Iterator::position")
def _position(m, c):
    it = get_it(m, c.args[0])
    f = Cell(c.args[1])
    k = 0
    while True:
        v = it.next(m)
        if v is STOP:
            return NONE
        if m.decide(m.call_closure(Ref(f, (), True), [v])):
            return some(k)
        k += 1


@model("Iterator::for_each")
def _for_each(m, c):
    it = get_it(m, c.args[0])
    f = Cell(c.args[1])
    while True:
        v = it.next(m)
        if v is STOP:
            return UNIT
        m.call_closure(Ref(f, (), True), [v])


@model("Iterator::fold")
def _fold(m, c):
    it = get_it(m, c.args[0])
    acc = c.args[1]
    f = Cell(c.args[2])
    while True:
        v = it.next(m)
        if v is STOP:
            return acc
        acc = m.call_closure(Ref(f, (), True), [acc, v])


@model("Iterator::count")
def _count(m, c):
    return len(drain(m, get_it(m, c.args[0])))


@model("Iterator::last")
def _last(m, c):
    xs = drain(m, get_it(m, c.args[0]))
    return some(xs[-1]) if xs else NONE


@model("Iterator::nth")
def _nth(m, c):
    it = get_it(m, c.args[0])
    n = m.concretize(c.args[1], 0, 64)
    v = STOP
    for _ in range(n + 1):
        v = it.next(m)
        if v is STOP:
            return NONE
    return some(v)


def _elem_ty_of_dest(d):
    return d


@model("Iterator::sum", "Sum::sum")
def _sum(m, c):
    d = c.destty
    it = get_it(m, c.args[0]) if not isinstance(c.args[0], It) else c.args[0]
    if d.k == "prim":
        acc = F(0) if d.name == "f64" else 0
        for v in drain(m, it):
            acc = num_binop(m, "add", acc, v)
        return acc
    if c.cal.trait == "Iterator":
        # std: Iterator::sum::<S>() = <S as Sum<Item>>::sum(self)  — in-crate impl for crate number types
        return m.call_text(f"<{show(d)} as Sum>::sum", [it], [ANY], d, c.env)
    raise Unsupported("sum into " + show(d))


@model("Iterator::product")
def _product(m, c):
    d = c.destty
    acc = F(1) if d.k == "prim" and d.name == "f64" else 1
    for v in drain(m, get_it(m, c.args[0])):
        acc = num_binop(m, "mul", acc, v)
    return acc


def _max_by(m, it, cmp_, last_wins=True):
    best = STOP
    while True:
        v = it.next(m)
        if v is STOP:
            break
        if best is STOP:
            best = v
            continue
        o = cmp_(best, v)
        # max_by: returns the last element if several are equally maximum; min_by: the first
        if last_wins:
            if o.idx <= 0:
                best = v
        else:
            if o.idx > 0:
                best = v
    return NONE if best is STOP else some(best)


@model("Iterator::max_by")
def _it_max_by(m, c):
    f = Cell(c.args[1])
    return _max_by(m, get_it(m, c.args[0]), lambda a, b: m.call_closure(Ref(f, (), True), [m.temp_ref(a), m.temp_ref(b)]), True)


@model("Iterator::min_by")
def _it_min_by(m, c):
    f = Cell(c.args[1])
    return _max_by(m, get_it(m, c.args[0]), lambda a, b: m.call_closure(Ref(f, (), True), [m.temp_ref(a), m.temp_ref(b)]), False)


@model("Iterator::max_by_key")
def _it_max_by_key(m, c):
    from .models import _prim_partial_cmp
    f = Cell(c.args[1])
    key = lambda a: m.call_closure(Ref(f, (), True), [m.temp_ref(a)])
    return _max_by(m, get_it(m, c.args[0]), lambda a, b: _prim_partial_cmp(m, key(a), key(b)), True)


@model("Iterator::max", "Iterator::min")
def _it_max(m, c):
    from .models import _prim_partial_cmp
    return _max_by(m, get_it(m, c.args[0]), lambda a, b: _prim_partial_cmp(m, a, b), c.cal.method == "max")


@model("Iterator::eq")
def _it_eq(m, c):
    a = drain(m, get_it(m, c.args[0]))
    b = drain(m, into_it(m, c.args[1]))
    if len(a) != len(b):
        return False
    r = True
    for x, y in zip(a, b):
        r = b_and(r, elem_eq(m, x, y))
    return r


@model("Iterator::unzip")
def _unzip(m, c):
    xs = drain(m, get_it(m, c.args[0]))
    return Tup([Seq([x.fields[0] for x in xs]), Seq([x.fields[1] for x in xs])])


def _hkey(m, x):
    x = m.strip(x)
    if isinstance(x, NDT) and not is_sym(x.day) and not is_sym(x.sec):
        return ("ndt", x.day, x.sec)
    if isinstance(x, Str):
        return ("str", x.s)
    if isinstance(x, int) and not isinstance(x, bool):
        return ("int", x)
    return None


def set_from_items(m, items):
    keys = [_hkey(m, x) for x in items]
    if items and all(k is not None for k in keys):      # concrete hashable items: plain de-duplication
        seen, out = set(), []
        for k, x in zip(keys, items):
            if k not in seen:
                seen.add(k); out.append(m.strip(x) if isinstance(x, Ref) else x)
        return SetV(out)
    out = []
    for x in items:
        dup = False
        for y in out:
            if m.decide(val_eq(m, x, y)):
                dup = True
                break
        if not dup:
            out.append(m.strip(x) if isinstance(x, Ref) else x)
    return SetV(out)


def map_from_pairs(m, pairs):
    ks, vs = [], []
    for p in pairs:
        k, v = p.fields
        hit = None
        for i, y in enumerate(ks):
            if m.decide(val_eq(m, k, y)):
                hit = i
                break
        if hit is None:
            ks.append(k); vs.append(v)
        else:
            vs[hit] = v
    return MapV(ks, vs)


def collect_into(m, items, d, env=None):
    if d.k == "adt" and d.name == "Vec":
        return Seq(items, d.args[0] if d.args else None)
    if d.k == "adt" and d.name in ("IndexSet", "HashSet", "BTreeSet"):
        return set_from_items(m, items)
    if d.k == "adt" and d.name in ("IndexMap", "HashMap"):
        return map_from_pairs(m, items)
    if d.k == "adt" and d.name == "ArrayBase":
        return Nd((len(items),), items)
    if d.k == "adt" and d.name == "String":
        return Str("".join(x.s if isinstance(x, Str) else chr(x) for x in (m.strip(i) for i in items)))
    if d.k == "adt" and d.name == "Result" and d.args:
        out = []
        for x in items:
            if x.variant == "Err":
                return x
            out.append(x.fields[0])
        return ok(collect_into(m, out, d.args[0]))
    if d.k == "adt" and d.name == "Option" and d.args:
        out = []
        for x in items:
            if x.variant == "None":
                return x
            out.append(x.fields[0])
        return some(collect_into(m, out, d.args[0]))
    raise Unsupported("collect into " + show(d))


@model("Iterator::collect", "FromIterator::from_iter")
def _collect(m, c):
    items = drain(m, into_it(m, c.args[0]))
    return collect_into(m, items, c.destty)


# ================================================================== Vec / slices
@model("Vec::new", "Vec::with_capacity")
def _vec_new(m, c):
    d = c.destty
    return Seq([], d.args[0] if d.k == "adt" and d.args else None)


@model("Vec::len", "slice::len", "array::len", "str::len", "String::len")
def _len(m, c):
    v = m.strip(c.args[0])
    if isinstance(v, Str):
        return len(v.s.encode())
    return len(v.items)


@model("Vec::is_empty", "slice::is_empty", "String::is_empty", "str::is_empty")
def _is_empty(m, c):
    v = m.strip(c.args[0])
    if isinstance(v, Str):
        return v.s == ""
    return len(v.items) == 0


@model("Vec::push")
def _push(m, c):
    r = c.args[0]
    v = m.deref(r)
    m.write(r, Seq(v.items + (c.args[1],), v.ety))
    return UNIT


@model("Vec::pop")
def _pop(m, c):
    r = c.args[0]
    v = m.deref(r)
    if not v.items:
        return NONE
    m.write(r, Seq(v.items[:-1], v.ety))
    return some(v.items[-1])


@model("Vec::insert")
def _vec_insert(m, c):
    r = c.args[0]
    v = m.deref(r)
    i = m.concretize(c.args[1], 0, len(v.items))
    it = list(v.items); it.insert(i, c.args[2])
    m.write(r, Seq(it, v.ety))
    return UNIT


@model("Vec::remove")
def _vec_remove(m, c):
    r = c.args[0]
    v = m.deref(r)
    i = m.concretize(c.args[1], 0, max(len(v.items) - 1, 0))
    if i >= len(v.items):
        raise RustPanic("removal index out of bounds")
    it = list(v.items); x = it.pop(i)
    m.write(r, Seq(it, v.ety))
    return x


@model("Vec::extend", "Extend::extend", "Vec::extend_from_slice", "Vec::append")
def _extend(m, c):
    r = c.args[0]
    v = m.deref(r)
    if c.cal.method == "extend_from_slice":
        add = as_list(m, c.args[1])
    elif c.cal.method == "append":
        add = as_list(m, c.args[1]); m.write(c.args[1], Seq([], v.ety))
    else:
        add = drain(m, into_it(m, c.args[1]))
    m.write(r, Seq(v.items + tuple(add), v.ety))
    return UNIT


@model("Vec::clear")
def _vec_clear(m, c):
    m.write(c.args[0], Seq([], m.deref(c.args[0]).ety))
    return UNIT


@model("slice::iter", "Vec::iter", "slice::iter_mut", "Vec::iter_mut", "array::iter", "IndexSet::iter", "HashSet::iter")
def _iter(m, c):
    return ListIt(elem_refs(m, c.args[0]))


@model("slice::to_vec", "slice::into_vec", "Vec::to_vec", "hack::into_vec", "array::to_vec")
def _to_vec(m, c):
    v = m.strip(c.args[0])
    if isinstance(v, BoxV):
        v = v.v
    return Seq(v.items, v.ety)


@model("Vec::from_elem", "vec::from_elem", "from_elem")
def _from_elem(m, c):
    n = m.concretize(c.args[1], 0, 64)
    return Seq([c.args[0]] * n)


@model("slice::first", "Vec::first", "slice::last", "Vec::last")
def _first(m, c):
    r = c.args[0]
    v = m.strip(r)
    if not v.items:
        return NONE
    refs = elem_refs(m, r)
    return some(refs[0] if c.cal.method == "first" else refs[-1])


@model("slice::get", "Vec::get")
def _slice_get(m, c):
    r = c.args[0]
    v = m.strip(r)
    i = c.args[1]
    if is_sym(i):
        if not m.decide(i_cmp("lt", i, len(v.items))):
            return NONE
        i = m.concretize(i, 0, len(v.items) - 1)
    if i >= len(v.items):
        return NONE
    return some(elem_refs(m, r)[i])


@model("slice::contains", "Vec::contains")
def _slice_contains(m, c):
    r = False
    for x in as_list(m, c.args[0]):
        r = b_or(r, val_eq(m, x, c.args[1]))
    return r


@model("slice::concat", "Vec::concat")
def _concat(m, c):
    out = []
    for x in as_list(m, c.args[0]):
        out += as_list(m, x)
    return Seq(out)


@model("slice::sort", "Vec::sort", "slice::sort_unstable")
def _sort(m, c):
    from .models import _prim_partial_cmp
    r = c.args[0]
    v = m.deref(r)
    items = list(v.items)
    # insertion sort with symbolic comparisons (forks)
    for i in range(1, len(items)):
        j = i
        while j > 0 and _prim_partial_cmp(m, items[j - 1], items[j]).idx > 0:
            items[j - 1], items[j] = items[j], items[j - 1]
            j -= 1
    m.write(r, Seq(items, v.ety))
    return UNIT


def _range_bounds(m, rg, n):
    rg = m.strip(rg)
    if isinstance(rg, RangeV):
        lo = 0 if rg.lo is None else rg.lo
        hi = n if rg.hi is None else (i_bin("add", rg.hi, 1) if rg.inclusive else rg.hi)
        return lo, hi
    if isinstance(rg, Struct):
        nm = rg.name
        if nm == "Range": return rg.fields[0], rg.fields[1]
        if nm == "RangeFrom": return rg.fields[0], n
        if nm == "RangeTo": return 0, rg.fields[0]
        if nm == "RangeFull": return 0, n
        if nm == "RangeInclusive": return rg.fields[0], i_bin("add", rg.fields[1], 1)
        if nm == "RangeToInclusive": return 0, i_bin("add", rg.fields[0], 1)
    raise Unsupported(f"range {rg!r}")


@model("Index::index", "IndexMut::index_mut")
def _index(m, c):
    r = c.args[0]
    cont = m.strip(r)
    idx = c.args[1]
    if isinstance(r, Ref):
        inner = m.deref(r)
        while isinstance(inner, Ref):
            r = inner
            inner = m.deref(r)
    if isinstance(cont, Seq):
        sidx = m.strip(idx) if isinstance(idx, Ref) else idx
        if isinstance(sidx, (RangeV, Struct)):
            lo, hi = _range_bounds(m, sidx, len(cont.items))
            lo = m.concretize(lo, 0, len(cont.items) + 1)
            hi = m.concretize(hi, 0, len(cont.items) + 1)
            if lo > hi or hi > len(cont.items):
                raise RustPanic("slice index out of range")
            return Ref(r.cell, r.path + (("sub", lo, hi),), r.mut)
        i = sidx
        if is_sym(i):
            if not m.decide(i_cmp("lt", i, len(cont.items))):
                raise RustPanic("index out of bounds")
            i = m.concretize(i, 0, len(cont.items) - 1)
        if i >= len(cont.items) or i < 0:
            raise RustPanic("index out of bounds")
        return Ref(r.cell, r.path + (("i", i),), r.mut)
    if isinstance(cont, Nd):
        from .models_nd import nd_index
        return nd_index(m, r, cont, idx)
    if isinstance(cont, MapV):
        for k, key in enumerate(cont.keys):
            if m.decide(val_eq(m, key, idx)):
                return Ref(r.cell, r.path + (("mapval", k),), r.mut)
        raise RustPanic("IndexMap: key not found")
    if isinstance(cont, SetV):
        i = m.concretize(idx, 0, len(cont.items))
        if i >= len(cont.items):
            raise RustPanic("IndexSet: index out of bounds")
        return Ref(r.cell, r.path + (("setitem", i),), False)
    from .models_nd import NdMutView, view_index
    if isinstance(cont, NdMutView):
        return view_index(m, cont, idx)
    raise Unsupported("Index on " + type(cont).__name__)


# ================================================================== IndexSet / HashSet
@model("IndexSet::new", "HashSet::new", "IndexSet::with_capacity", "IndexSet::default")
def _set_new(m, c):
    return SetV()


@model("IndexSet::len", "HashSet::len", "IndexMap::len", "HashMap::len")
def _set_len(m, c):
    v = m.strip(c.args[0])
    return len(v.items) if isinstance(v, SetV) else len(v.keys)


@model("IndexSet::is_empty", "IndexMap::is_empty")
def _set_is_empty(m, c):
    v = m.strip(c.args[0])
    return (len(v.items) if isinstance(v, SetV) else len(v.keys)) == 0


@model("IndexSet::contains", "HashSet::contains")
def _set_contains(m, c):
    s = m.strip(c.args[0])
    if isinstance(s, FreeSetV):
        return s.pred(m.strip(c.args[1]))
    r = False
    for x in s.items:
        r = b_or(r, val_eq(m, x, c.args[1]))
    return r


@model("IndexSet::get_index_of")
def _get_index_of(m, c):
    s = m.strip(c.args[0])
    for i, x in enumerate(s.items):
        if m.decide(val_eq(m, x, c.args[1])):
            return some(i)
    return NONE


_ATOM_RANK = {i: r for r, i in enumerate(sorted(range(20), key=lambda i: f"v{i}"))}


def _order_key(m, x):
    """a value whose < is the Ord of the modelled key: atoms are the names "v<id>" (ids 0..19) in STRING order (v10 < v2)"""
    x = m.strip(x)
    if isinstance(x, Atom):
        if is_sym(x.id):
            e = z3.IntVal(_ATOM_RANK[19])
            for i in range(18, -1, -1):
                e = z3.If(x.id == i, z3.IntVal(_ATOM_RANK[i]), e)
            return e
        return _ATOM_RANK[x.id]
    if isinstance(x, Str):
        return x.s
    if isinstance(x, NDT):
        return iz(x.day) * 86400 + iz(x.sec) if (is_sym(x.day) or is_sym(x.sec)) else x.day * 86400 + x.sec
    if isinstance(x, int) or is_sym(x):
        return x
    raise Unsupported(f"ordering of {type(x).__name__}")


@model("IndexSet::binary_search", "slice::binary_search", "Vec::binary_search")
def _binary_search(m, c):
    """core::slice::binary_search_by as in the pinned std (base/size form); on an unsorted list the result is whatever
    that loop yields, exactly as natively"""
    s = m.strip(c.args[0])
    items = list(s.items)
    kx = _order_key(m, c.args[1])
    def cmp(i):            # -1 / 0 / 1 for items[i] vs x
        ki = _order_key(m, items[i])
        if isinstance(ki, str) or isinstance(kx, str):
            return -1 if ki < kx else 0 if ki == kx else 1
        if m.decide(ki < kx) is True: return -1
        if m.decide(ki == kx) is True: return 0
        return 1
    size = len(items)
    if size == 0:
        return err(0)
    base = 0
    while size > 1:
        half = size // 2
        mid = base + half
        if cmp(mid) != 1:
            base = mid
        size -= half
    r = cmp(base)
    if r == 0:
        return ok(base)
    return err(base + (1 if r == -1 else 0))


@model("IndexSet::get_index")
def _set_get_index(m, c):
    r = c.args[0]
    s = m.strip(r)
    i = m.concretize(c.args[1], 0, len(s.items))
    if i >= len(s.items):
        return NONE
    return some(elem_refs(m, r)[i])


@model("IndexSet::insert", "HashSet::insert")
def _set_insert(m, c):
    r = c.args[0]
    s = m.deref(r)
    for x in s.items:
        if m.decide(val_eq(m, x, c.args[1])):
            return False
    m.write(r, SetV(s.items + (c.args[1],)))
    return True


@model("IndexSet::union")
def _set_union(m, c):
    a, b = c.args
    sa, sb = m.strip(a), m.strip(b)
    out = elem_refs(m, a)
    for k, y in enumerate(sb.items):
        inn = False
        for x in sa.items:
            if m.decide(val_eq(m, x, y)):
                inn = True
                break
        if not inn:
            out.append(elem_refs(m, b)[k])
    return ListIt(out)


@model("IndexSet::first", "IndexSet::last")
def _set_first(m, c):
    r = c.args[0]
    s = m.strip(r)
    if not s.items:
        return NONE
    refs = elem_refs(m, r)
    return some(refs[0] if c.cal.method == "first" else refs[-1])


@model("IndexSet::into_iter")
def _set_into_iter(m, c):
    return into_it(m, c.args[0])


# ================================================================== IndexMap
@model("IndexMap::new", "HashMap::new", "IndexMap::with_capacity", "IndexMap::default")
def _map_new(m, c):
    return MapV()


def _map_find(m, mp, key):
    for i, k in enumerate(mp.keys):
        if m.decide(val_eq(m, k, key)):
            return i
    return None


@model("IndexMap::get", "HashMap::get", "IndexMap::get_mut")
def _map_get(m, c):
    r = c.args[0]
    mp = m.strip(r)
    i = _map_find(m, mp, c.args[1])
    if i is None:
        return NONE
    while isinstance(m.deref(r), Ref):
        r = m.deref(r)
    return some(Ref(r.cell, r.path + (("mapval", i),), r.mut))


@model("IndexMap::contains_key", "HashMap::contains_key")
def _map_contains(m, c):
    mp = m.strip(c.args[0])
    r = False
    for k in mp.keys:
        r = b_or(r, val_eq(m, k, c.args[1]))
    return r


@model("IndexMap::get_index_of")
def _map_index_of(m, c):
    mp = m.strip(c.args[0])
    i = _map_find(m, mp, c.args[1])
    return NONE if i is None else some(i)


@model("IndexMap::insert", "HashMap::insert")
def _map_insert(m, c):
    r = c.args[0]
    mp = m.deref(r)
    i = _map_find(m, mp, c.args[1])
    if i is None:
        m.write(r, MapV(mp.keys + (c.args[1],), mp.vals + (c.args[2],)))
        return NONE
    vs = list(mp.vals); old = vs[i]; vs[i] = c.args[2]
    m.write(r, MapV(mp.keys, vs))
    return some(old)


@model("IndexMap::get_index", "IndexMap::get_index_mut")
def _map_get_index(m, c):
    r = c.args[0]
    mp = m.strip(r)
    i = m.concretize(c.args[1], 0, len(mp.keys))
    if i >= len(mp.keys):
        return NONE
    while isinstance(m.deref(r), Ref):
        r = m.deref(r)
    return some(Tup([Ref(r.cell, r.path + (("mapkey", i),), False), Ref(r.cell, r.path + (("mapval", i),), r.mut)]))


@model("IndexMap::first", "IndexMap::last")
def _map_first(m, c):
    r = c.args[0]
    mp = m.strip(r)
    if not mp.keys:
        return NONE
    i = 0 if c.cal.method == "first" else len(mp.keys) - 1
    while isinstance(m.deref(r), Ref):
        r = m.deref(r)
    return some(Tup([Ref(r.cell, r.path + (("mapkey", i),), False), Ref(r.cell, r.path + (("mapval", i),), False)]))


@model("IndexMap::keys", "HashMap::keys")
def _map_keys(m, c):
    r = c.args[0]
    mp = m.strip(r)
    while isinstance(m.deref(r), Ref):
        r = m.deref(r)
    return ListIt([Ref(r.cell, r.path + (("mapkey", i),), False) for i in range(len(mp.keys))])


@model("IndexMap::values", "HashMap::values", "IndexMap::values_mut")
def _map_values(m, c):
    r = c.args[0]
    mp = m.strip(r)
    while isinstance(m.deref(r), Ref):
        r = m.deref(r)
    return ListIt([Ref(r.cell, r.path + (("mapval", i),), r.mut) for i in range(len(mp.keys))])


@model("IndexMap::iter", "HashMap::iter", "IndexMap::iter_mut")
def _map_iter(m, c):
    return into_it(m, c.args[0])


@model("IndexMap::into_iter", "IndexMap::into_values", "IndexMap::into_keys")
def _map_into_iter(m, c):
    mp = c.args[0]
    if c.cal.method == "into_values":
        return ListIt(mp.vals)
    if c.cal.method == "into_keys":
        return ListIt(mp.keys)
    return into_it(m, mp)


@model("IndexMap::sort_keys", "IndexSet::sort")
def _sort_keys(m, c):
    from .models import _prim_partial_cmp
    r = c.args[0]
    mp = m.deref(r)
    if isinstance(mp, SetV):
        items = list(mp.items)
        for i in range(1, len(items)):
            j = i
            while j > 0 and _prim_partial_cmp(m, items[j - 1], items[j]).idx > 0:
                items[j - 1], items[j] = items[j], items[j - 1]; j -= 1
        m.write(r, SetV(items))
        return UNIT
    pairs = list(zip(mp.keys, mp.vals))
    for i in range(1, len(pairs)):
        j = i
        while j > 0 and _prim_partial_cmp(m, pairs[j - 1][0], pairs[j][0]).idx > 0:
            pairs[j - 1], pairs[j] = pairs[j], pairs[j - 1]
            j -= 1
    m.write(r, MapV([p[0] for p in pairs], [p[1] for p in pairs]))
    return UNIT


# ================================================================== ranges
@model("RangeInclusive::new")
def _range_incl(m, c):
    return RangeV(c.args[0], c.args[1], True)


# ================================================================== further adaptors
class FlattenIt(It):
    def __init__(self, inner):
        self.inner, self.cur = inner, None

    def next(self, m):
        while True:
            if self.cur is not None:
                v = self.cur.next(m)
                if v is not STOP:
                    return v
                self.cur = None
            x = self.inner.next(m)
            if x is STOP:
                return STOP
            self.cur = into_it(m, x)


class TakeWhileIt(It):
    def __init__(self, inner, f):
        self.inner, self.f, self.done = inner, Cell(f), False

    def next(self, m):
        if self.done:
            return STOP
        v = self.inner.next(m)
        if v is STOP:
            return STOP
        if m.decide(m.call_closure(Ref(self.f, (), True), [m.temp_ref(v)])):
            return v
        self.done = True
        return STOP


class SkipWhileIt(It):
    def __init__(self, inner, f):
        self.inner, self.f, self.started = inner, Cell(f), False

    def next(self, m):
        while True:
            v = self.inner.next(m)
            if v is STOP or self.started:
                return v
            if not m.decide(m.call_closure(Ref(self.f, (), True), [m.temp_ref(v)])):
                self.started = True
                return v


class StepByIt(It):
    def __init__(self, inner, n):
        self.inner, self.n, self.first = inner, n, True

    def next(self, m):
        if self.first:
            self.first = False
            return self.inner.next(m)
        for _ in range(self.n - 1):
            if self.inner.next(m) is STOP:
                return STOP
        return self.inner.next(m)


@model("Iterator::flatten")
def _flatten(m, c):
    return FlattenIt(get_it(m, c.args[0]))


@model("Iterator::flat_map")
def _flat_map(m, c):
    return FlattenIt(MapIt(get_it(m, c.args[0]), c.args[1]))


@model("Iterator::take_while")
def _take_while(m, c):
    return TakeWhileIt(get_it(m, c.args[0]), c.args[1])


@model("Iterator::skip_while")
def _skip_while(m, c):
    return SkipWhileIt(get_it(m, c.args[0]), c.args[1])


@model("Iterator::step_by")
def _step_by(m, c):
    return StepByIt(get_it(m, c.args[0]), m.concretize(c.args[1], 1, 64))


@model("Iterator::inspect")
def _inspect(m, c):
    return get_it(m, c.args[0])


@model("slice::windows", "slice::chunks", "slice::chunks_exact")
def _windows(m, c):
    r = c.args[0]
    v = m.strip(r)
    k = m.concretize(c.args[1], 1, 64)
    n = len(v.items)
    while isinstance(m.deref(r), Ref):
        r = m.deref(r)
    if c.cal.method == "windows":
        rng = [(i, i + k) for i in range(0, n - k + 1)]
    else:
        rng = [(i, min(i + k, n)) for i in range(0, n, k) if c.cal.method == "chunks" or i + k <= n]
    return ListIt([Ref(r.cell, r.path + (("sub", a, b),), r.mut) for a, b in rng])


@model("slice::iter::rev")
def _noop(m, c):
    return c.args[0]


@model("Range::contains", "RangeInclusive::contains", "RangeFrom::contains", "RangeTo::contains", "RangeToInclusive::contains")
def _range_contains(m, c):
    rg = m.strip(c.args[0])
    x = m.strip(c.args[1])
    nm = rg.name if isinstance(rg, Struct) else ("RangeInclusive" if rg.inclusive else "Range")
    f = rg.fields if isinstance(rg, Struct) else (rg.lo, rg.hi)
    cmpf = (lambda op, a, b: f_cmp(op, a, b)) if isinstance(x, F) else (lambda op, a, b: i_cmp(op, a, b))
    if nm == "Range": return b_and(cmpf("le", f[0], x), cmpf("lt", x, f[1]))
    if nm == "RangeInclusive": return b_and(cmpf("le", f[0], x), cmpf("le", x, f[1]))
    if nm == "RangeFrom": return cmpf("le", f[0], x)
    if nm == "RangeTo": return cmpf("lt", x, f[0])
    if nm == "RangeToInclusive": return cmpf("le", x, f[0])
    raise Unsupported("range contains")


@model("RangeInclusive::start", "RangeInclusive::end")
def _ri_bounds(m, c):
    r = c.args[0]
    rg = m.strip(r)
    k = 0 if c.cal.method == "start" else 1
    if isinstance(rg, Struct):
        return Ref(r.cell, r.path + (("f", k),), False)
    return m.temp_ref((rg.lo, rg.hi)[k])


@model("ExactSizeIterator::len")
def _exact_len(m, c):
    it = get_it(m, c.args[0])
    if isinstance(it, ListIt):
        return it.remaining()
    return len(drain(m, it.clone()))


@model("iter::zip", "zip")
def _free_zip(m, c):
    return ZipIt(into_it(m, c.args[0]), into_it(m, c.args[1]))


@model("iter::once", "once")
def _once(m, c):
    return ListIt([c.args[0]])


@model("iter::repeat", "repeat")
def _repeat(m, c):
    class Rep(It):
        def next(self, m2):
            return c.args[0]
    return Rep()
