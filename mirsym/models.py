"""Library models = the trusted base of engine M.  Each out-of-crate callee reached from the crate's MIR gets a
few lines here.  Registry keys: 'Trait::method' for trait calls, 'Type::method' for inherent calls, or the last
path segments for free functions."""
import z3
from fractions import Fraction
from .types import Ty, parse_type, deref_ty, show, subst
from .values import *
from .sym import *
from .machine import RustPanic, Unsupported, Call, F64

ANY = Ty("other", "?")
REG = {}


def model(*names):
    def deco(f):
        for n in names:
            REG[n] = f
        return f
    return deco


class STOPT:
    def __repr__(self):
        return "STOP"


STOP = STOPT()


class Models:
    """dispatch policy; specs may subclass to add model structs"""
    PREFER_MODEL = {"Clone::clone", "Debug::fmt", "Display::fmt"}

    def __init__(self):
        self.reg = dict(REG)

    def key_candidates(self, cal, self_ty):
        ks = []
        st = self_ty
        if st is not None and cal.trait in ("From", "TryFrom", "Index", "IndexMut", "FromIterator", "Default", "Deref", "IntoIterator"):
            # conversions and indexing are dispatched on the implementing type first
            b = deref_ty(st)
            if b.k in ("adt", "prim"):
                ks.append(f"{b.name}::{cal.method}")
        if cal.trait:
            ks.append(f"{cal.trait}::{cal.method}")
        if st is not None:
            b = deref_ty(st)
            if b.k in ("adt", "prim"):
                ks.append(f"{b.name}::{cal.method}")
            elif b.k == "slice":
                ks.append(f"slice::{cal.method}")
            elif b.k == "array":
                ks.append(f"array::{cal.method}")
        if cal.prefix:
            ks.append(f"{cal.prefix.split('<')[0]}::{cal.method}")
        segs = [s for s in cal.segs if not s.startswith("<")]
        if len(segs) >= 2:
            ks.append("::".join(segs[-2:]))
        ks.append(cal.method)
        return ks

    def lookup(self, cal, self_ty):
        for k in self.key_candidates(cal, self_ty):
            f = self.reg.get(k)
            if f is not None:
                return f
        return None

    def prefer_model(self, cal, self_ty):
        return cal.trait is not None and f"{cal.trait}::{cal.method}" in self.PREFER_MODEL

    def pre_dispatch(self, m, cal, self_ty, args, argtys, destty, env):
        return NotImplemented

    def named_const(self, m, fr, c):
        if c.startswith("std::f64::consts::PI") or c.startswith("PI") or c.endswith("consts::PI"):
            return F(m.pi())
        return None


# ------------------------------------------------------------------ helpers on the machine
def _pi(self):
    if "pi" not in self.__dict__.setdefault("_consts", {}):
        p = z3.Real("PI")
        self._consts["pi"] = p
        self.define(z3.And(p > rv(Fraction(314159, 100000)), p < rv(Fraction(314160, 100000))))
    return self._consts["pi"]


def _sv(m, v):
    return m.strip(v)


def val_eq(m, a, b):
    """structural equality as bool | z3 Bool (the semantics of derived PartialEq on library types)"""
    a, b = m.strip(a), m.strip(b)
    if isinstance(a, (ArcV, BoxV)):
        a = a.v
    if isinstance(b, (ArcV, BoxV)):
        b = b.v
    if isinstance(a, F) and isinstance(b, F):
        return f_cmp("eq", a, b)
    if isinstance(a, bool) or isinstance(b, bool) or (is_sym(a) and z3.is_bool(a)):
        return b_eq(a, b)
    if isinstance(a, int) or is_sym(a):
        return i_cmp("eq", a, b)
    if isinstance(a, Str) and isinstance(b, Str):
        return a.s == b.s
    if isinstance(a, Atom) and isinstance(b, Atom):
        return i_cmp("eq", a.id, b.id)
    if isinstance(a, (Atom, Str)) and isinstance(b, (Atom, Str)):
        return False if not (is_sym(a.id if isinstance(a, Atom) else 0) or is_sym(b.id if isinstance(b, Atom) else 0)) else Unsupported_("atom vs str")
    if isinstance(a, Seq) and isinstance(b, Seq):
        if len(a.items) != len(b.items):
            return False
        r = True
        for x, y in zip(a.items, b.items):
            r = b_and(r, elem_eq(m, x, y))
        return r
    if isinstance(a, Tup) and isinstance(b, Tup):
        r = True
        for x, y in zip(a.fields, b.fields):
            r = b_and(r, elem_eq(m, x, y))
        return r
    if isinstance(a, Enum) and isinstance(b, Enum):
        if is_sym(a.idx) or is_sym(b.idx):
            return i_cmp("eq", a.idx, b.idx)      # field-less enum with a symbolic discriminant (e.g. Weekday)
        if a.idx != b.idx:
            return False
        r = True
        for x, y in zip(a.fields, b.fields):
            r = b_and(r, elem_eq(m, x, y))
        return r
    if isinstance(a, Struct) and isinstance(b, Struct):
        r = True
        for x, y in zip(a.fields, b.fields):
            r = b_and(r, elem_eq(m, x, y))
        return r
    if isinstance(a, Nd) and isinstance(b, Nd):
        if a.shape != b.shape:
            return False
        r = True
        for x, y in zip(a.data, b.data):
            r = b_and(r, elem_eq(m, x, y))
        return r
    if isinstance(a, SetV) and isinstance(b, SetV):
        if len(a.items) != len(b.items):
            return False
        def hk(x):
            x = m.strip(x)
            if isinstance(x, NDT) and not is_sym(x.day) and not is_sym(x.sec): return ("ndt", x.day, x.sec)
            if isinstance(x, Str): return ("str", x.s)
            if isinstance(x, Enum) and not x.fields and not is_sym(x.idx): return ("enum", x.name, x.idx)
            if isinstance(x, int) and not isinstance(x, bool): return ("int", x)
            return None
        ka, kb = [hk(x) for x in a.items], [hk(x) for x in b.items]
        if all(k is not None for k in ka) and all(k is not None for k in kb):
            return set(ka) == set(kb)
        r = True
        for x in a.items:
            c = False
            for y in b.items:
                c = b_or(c, val_eq(m, x, y))
            r = b_and(r, c)
        return r
    if isinstance(a, MapV) and isinstance(b, MapV):
        if len(a.keys) != len(b.keys):
            return False
        r = True
        for k, v in zip(a.keys, a.vals):
            c = False
            for k2, v2 in zip(b.keys, b.vals):
                c = b_or(c, b_and(val_eq(m, k, k2), elem_eq(m, v, v2)))
            r = b_and(r, c)
        return r
    if isinstance(a, FreeSetV) and isinstance(b, FreeSetV):
        raise Unsupported("equality of free sets")
    if isinstance(a, NDT) and isinstance(b, NDT):
        return b_and(i_cmp("eq", a.day, b.day), i_cmp("eq", a.sec, b.sec))
    if isinstance(a, NDate) and isinstance(b, NDate):
        return i_cmp("eq", a.day, b.day)
    if a is b:
        return True
    raise Unsupported(f"val_eq on {type(a).__name__} / {type(b).__name__}")


def Unsupported_(msg):
    raise Unsupported(msg)


def elem_eq(m, x, y):
    """equality of container elements: in-crate PartialEq when the element is a crate type"""
    xs, ys = m.strip(x), m.strip(y)
    if isinstance(xs, (Struct, Enum)) and xs.name not in ("Option", "Result", "Ordering"):
        tx, ty_ = m.value_type(xs), m.value_type(ys)
        cands = m.prog.by_name.get("eq", [])
        if any(f.params and deref_ty(f.params[0][1]).name == xs.name for f in cands):
            rx = x if isinstance(x, Ref) else m.temp_ref(xs)
            ry = y if isinstance(y, Ref) else m.temp_ref(ys)
            return m.call_text(f"<{show(tx)} as PartialEq<{show(ty_)}>>::eq", [rx, ry],
                               [Ty("ref", None, (tx,), False), Ty("ref", None, (ty_,), False)], parse_type("bool"))
    return val_eq(m, xs, ys)


def num_binop(m, op, x, y):
    """op in add/sub/mul/div/rem on scalars that may be f64 or crate number types (by value or by reference)"""
    xs, ys = m.strip(x), m.strip(y)
    if isinstance(xs, F) and isinstance(ys, F):
        return f_bin(m, op, xs, ys)
    if op == "add" and isinstance(xs, Str) and isinstance(ys, Str):
        return Str(xs.s + ys.s)          # String + &str
    if (isinstance(xs, int) or is_sym(xs)) and (isinstance(ys, int) or is_sym(ys)):
        return i_bin(op, xs, ys)
    tr = {"add": "Add", "sub": "Sub", "mul": "Mul", "div": "Div", "rem": "Rem"}[op]
    tx = m.value_type(x) if isinstance(x, Ref) else m.value_type(xs)
    ty_ = m.value_type(y) if isinstance(y, Ref) else m.value_type(ys)
    xa = x if isinstance(x, Ref) or not isinstance(xs, (Struct, Enum)) else xs
    ya = y if isinstance(y, Ref) or not isinstance(ys, (Struct, Enum)) else ys
    if isinstance(xs, F):
        xa, tx = xs, F64
    if isinstance(ys, F):
        ya, ty_ = ys, F64
    from .types import parse_callee
    cal = parse_callee(f"<{show(tx)} as {tr}<{show(ty_)}>>::{op}")
    got = m.resolve_incrate(cal, cal.self_ty, [xa, ya], [tx, ty_], ANY, {})
    if got is None:
        raise Unsupported(f"no operator {tr} for {show(tx)} , {show(ty_)}")
    return m.run_function(got[0], [xa, ya], got[1])


def num_neg(m, x):
    xs = m.strip(x)
    if isinstance(xs, F):
        return f_neg(xs)
    if isinstance(xs, int) or is_sym(xs):
        return -xs
    tx = m.value_type(x) if isinstance(x, Ref) else m.value_type(xs)
    return m.call_text(f"<{show(tx)} as Neg>::neg", [x if isinstance(x, Ref) else xs], [tx], ANY)


def as_list(m, v):
    """python list of the elements of a sequence-like value (through references)"""
    v = m.strip(v)
    if isinstance(v, Seq):
        return list(v.items)
    if isinstance(v, SetV):
        return list(v.items)
    if isinstance(v, Nd):
        return list(v.data)
    raise Unsupported("as_list of " + type(v).__name__)


def install(MachineCls):
    MachineCls.pi = _pi
    MachineCls.val_eq = val_eq
    MachineCls.num_binop = num_binop


# ------------------------------------------------------------------ panics, fmt, misc
@model("panic", "panicking::panic_fmt", "panic_fmt", "panicking::panic", "begin_panic", "panicking::panic_explicit", "panic_display",
       "panicking::panic_display", "option::unwrap_failed", "unwrap_failed", "result::unwrap_failed", "expect_failed",
       "panic_cold_explicit", "panic_cold_display", "assert_failed", "panicking::assert_failed", "panic_nounwind", "panic_bounds_check")
def _panic(m, c):
    msg = ""
    for a in c.args:
        a = m.strip(a)
        if isinstance(a, Str):
            msg = a.s
            break
        if isinstance(a, Opaque) and a.tag == "fmtargs":
            try:
                msg = render_fmt(m, a)
            except Exception:
                msg = "".join(a.payload[0]) if isinstance(a.payload, tuple) else str(a.payload)
            break
    raise RustPanic("panic: " + msg + " [" + c.cal.method + "]")


@model("Arguments::new_const", "Arguments::new_v1", "Arguments::new_v1_formatted", "Arguments::new", "Arguments::from_str", "Arguments::from_str_nonconst")
def _fmt_args(m, c):
    a0 = m.strip(c.args[0])
    if isinstance(a0, Opaque) and a0.tag == "bytes":
        # compact template of newer rustc: <len><literal bytes> | 0xC0.. = next argument | 0x00 = end
        b = a0.payload
        fargs = []
        if len(c.args) > 1:
            try:
                fargs = [m.strip(x) for x in as_list(m, c.args[1])]
            except Unsupported:
                fargs = []
        parts, cur, i = [], "", 0
        while i < len(b):
            k = b[i]
            if k == 0:
                break
            if k < 0x80:
                cur += b[i + 1:i + 1 + k].decode("latin-1"); i += 1 + k
            else:
                parts.append(cur); cur = ""; i += 1
                if k != 0xC0:      # explicit format spec bytes follow: skip conservatively
                    while i < len(b) and b[i] >= 0x80:
                        i += 1
        parts.append(cur)
        return Opaque("fmtargs", (parts, fargs))
    parts = []
    try:
        for p in as_list(m, c.args[0]):
            p = m.strip(p)
            if isinstance(p, Str):
                parts.append(p.s)
    except Unsupported:
        a = m.strip(c.args[0])
        if isinstance(a, Str):
            parts.append(a.s)
    fargs = []
    if len(c.args) > 1:
        try:
            fargs = [m.strip(x) for x in as_list(m, c.args[1])]
        except Unsupported:
            fargs = []
    return Opaque("fmtargs", ("{}".join(parts) if not fargs else "".join(parts)), ) if False else Opaque("fmtargs", (parts, fargs))


@model("Argument::new_display", "Argument::new_debug", "Argument::new_lower_exp")
def _fmt_arg(m, c):
    return Opaque("fmtarg", m.strip(c.args[0]))


def render_fmt(m, fa):
    parts, fargs = fa.payload if isinstance(fa.payload, tuple) else ([fa.payload], [])
    out = []
    for i, p in enumerate(parts):
        out.append(p)
        if i < len(fargs):
            v = fargs[i].payload if isinstance(fargs[i], Opaque) else fargs[i]
            out.append(display(m, v))
    for j in range(len(parts), len(fargs)):
        v = fargs[j].payload if isinstance(fargs[j], Opaque) else fargs[j]
        out.append(display(m, v))
    return "".join(out)


def display(m, v):
    v = m.strip(v)
    if isinstance(v, Str):
        return v.s
    if isinstance(v, bool):
        return "true" if v else "false"
    if isinstance(v, int):
        return str(v)
    if isinstance(v, Atom):
        raise Unsupported("Display of a symbolic atom")
    if isinstance(v, (Struct, Enum)):
        # in-crate Display impl
        cands = [f for f in m.prog.by_name.get("fmt", []) if f.params and deref_ty(f.params[0][1]).name == v.name]
        for f in cands:
            hdr = m.src.impl_header(f.impl_span) if f.impl_span else None
            if hdr and hdr[0] is not None and hdr[0].name == "Display":
                fmtr = Cell(Opaque("formatter", []))
                m.run_function(f, [m.temp_ref(v), Ref(fmtr, (), True)], {})
                return "".join(fmtr.v.payload)
        raise Unsupported("Display of " + v.name)
    raise Unsupported("Display of " + type(v).__name__)


@model("fmt::format", "format", "alloc::fmt::format", "fmt::format::format_inner", "format_inner")
def _format(m, c):
    fa = m.strip(c.args[0])
    return Str(render_fmt(m, fa))


@model("Formatter::write_fmt", "Formatter::write_str", "Write::write_fmt", "Write::write_str")
def _write_fmt(m, c):
    r = c.args[0]
    fm = m.strip(r)
    a = m.strip(c.args[1])
    s = a.s if isinstance(a, Str) else render_fmt(m, a)
    m.write(r, Opaque("formatter", list(fm.payload) + [s]))
    return ok(UNIT)


@model("ToString::to_string", "ToOwned::to_owned", "String::from", "str::to_string", "str::to_owned", "String::clone", "str::into")
def _to_string(m, c):
    v = m.strip(c.args[0])
    if isinstance(v, (Str, Atom)):
        return v
    if isinstance(v, Seq):
        return v
    return Str(display(m, v))


@model("Clone::clone", "Arc::clone", "Rc::clone")
def _clone(m, c):
    return m.deref(c.args[0]) if isinstance(c.args[0], Ref) else c.args[0]


@model("Deref::deref", "DerefMut::deref_mut", "Borrow::borrow", "AsRef::as_ref", "BorrowMut::borrow_mut", "AsMut::as_mut",
       "String::as_str", "Vec::as_slice", "Vec::as_mut_slice", "String::as_mut_str")
def _deref(m, c):
    r = c.args[0]
    v = m.deref(r)
    if isinstance(v, (ArcV, BoxV)):
        return Ref(r.cell, r.path + (("inner",),), r.mut)
    if isinstance(v, Ref):
        return v
    return r


@model("Arc::new", "Rc::new")
def _arc_new(m, c):
    return m.new_arc(c.args[0])


@model("Box::new")
def _box_new(m, c):
    return BoxV(c.args[0])


@model("Arc::ptr_eq", "Rc::ptr_eq")
def _ptr_eq(m, c):
    return m.deref(c.args[0]).id == m.deref(c.args[1]).id


@model("mem::swap", "swap")
def _swap(m, c):
    a, b = c.args
    va, vb = m.deref(a), m.deref(b)
    m.write(a, vb); m.write(b, va)
    return UNIT


@model("mem::replace", "replace")
def _replace(m, c):
    a, v = c.args
    old = m.deref(a)
    m.write(a, v)
    return old


@model("mem::take", "take")
def _take(m, c):
    raise Unsupported("mem::take")


@model("mem::drop", "drop", "mem::forget")
def _drop(m, c):
    return UNIT


@model("From::from", "Into::into")
def _from(m, c):
    v = c.args[0]
    d = c.destty
    sv = m.strip(v) if not isinstance(v, Ref) else v
    # integer / float widening
    if d.k == "prim":
        if d.name == "f64":
            if isinstance(sv, F):
                return sv
            if isinstance(sv, int) or is_sym(sv):
                return F(z3.ToReal(sv)) if is_sym(sv) else F(sv)
        elif isinstance(sv, (int,)) or is_sym(sv):
            return sv
    if d.k == "adt" and d.name == "String":
        return m.strip(v)
    if d.k == "adt" and d.name == "PyErr":
        return sv if isinstance(sv, Opaque) else Opaque("PyErr", sv)
    if d.k == "adt" and d.name == "Vec" and isinstance(m.strip(v), Seq):
        return m.strip(v)
    if d.k == "adt" and d.name == "Arc":
        return m.new_arc(v)
    if d.k == "adt" and d.name == "Box":
        return BoxV(v)
    if d.k == "adt" and d.name in ("HashMap", "IndexMap", "BTreeMap"):
        from .models_coll import map_from_pairs
        return map_from_pairs(m, as_list(m, v))
    if d.k == "adt" and d.name in ("HashSet", "IndexSet", "BTreeSet"):
        from .models_coll import set_from_items
        return set_from_items(m, as_list(m, v))
    if c.cal.method == "into" and c.cal.trait == "Into":
        # blanket impl: Into<U> for T  ==  U::from(T)
        st = c.self_ty
        ua = subst(c.cal.trait_args[0], c.env) if c.cal.trait_args else d
        return m.call_text(f"<{show(ua)} as From<{show(st)}>>::from", [v], [c.argtys[0]], ua)
    if c.argtys and c.argtys[0] == d:
        return v
    raise Unsupported(f"From::from {show(c.argtys[0]) if c.argtys else '?'} -> {show(d)}")


@model("TryFrom::try_from", "TryInto::try_into")
def _try_from(m, c):
    v = c.args[0]
    d = c.destty
    # Result<T, E>
    t = d.args[0] if d.k == "adt" and d.name == "Result" and d.args else None
    if t is not None and t.k == "adt" and t.name == "Weekday":
        return m.models.reg["Weekday::try_from"](m, c)
    rng = m.int_range(t)
    if rng is None or not (isinstance(v, int) or is_sym(v)):
        raise Unsupported("try_from " + show(d))
    inr = b_and(i_cmp("ge", v, rng[0]), i_cmp("le", v, rng[1]))
    if m.decide(inr):
        return ok(v)
    return err(Opaque("TryFromIntError"))


@model("Default::default")
def _default(m, c):
    d = c.destty
    if d.k == "prim":
        if d.name == "f64":
            return F(0)
        if d.name == "bool":
            return False
        return 0
    if d.k == "adt" and d.name == "Vec":
        return Seq([], d.args[0] if d.args else None)
    if d.k == "adt" and d.name == "String":
        return Str("")
    if d.k == "adt" and d.name in ("IndexSet", "HashSet"):
        return SetV()
    if d.k == "adt" and d.name in ("IndexMap", "HashMap"):
        return MapV()
    if d.k == "adt" and d.name == "Option":
        return NONE
    raise Unsupported("Default for " + show(d))


# ------------------------------------------------------------------ PyErr
@model("PyErr::new", "PyValueError::new_err", "PyTypeError::new_err", "PyKeyError::new_err", "PyIndexError::new_err",
       "new_err")
def _pyerr(m, c):
    a = m.strip(c.args[0]) if c.args else None
    return Opaque("PyErr", a.s if isinstance(a, Str) else a)


# ------------------------------------------------------------------ Option / Result
def _is(v, name):
    return isinstance(v, Enum) and v.variant == name


@model("Option::unwrap", "Result::unwrap", "Option::expect", "Result::expect")
def _unwrap(m, c):
    v = m.strip(c.args[0]) if isinstance(c.args[0], Ref) else c.args[0]
    if v.variant in ("Some", "Ok"):
        return v.fields[0]
    raise RustPanic(f"called `{v.name}::{c.cal.method}()` on a `{v.variant}` value")


@model("Option::unwrap_or_else", "Result::unwrap_or_else")
def _unwrap_or_else(m, c):
    v = c.args[0]
    if v.variant in ("Some", "Ok"):
        return v.fields[0]
    return m.call_closure(c.args[1], [] if v.name == "Option" else [v.fields[0]])


@model("Option::unwrap_or", "Result::unwrap_or")
def _unwrap_or(m, c):
    v = c.args[0]
    return v.fields[0] if v.variant in ("Some", "Ok") else c.args[1]


@model("Option::unwrap_or_default", "Result::unwrap_or_default")
def _unwrap_or_default(m, c):
    v = c.args[0]
    if v.variant in ("Some", "Ok"):
        return v.fields[0]
    c2 = Call(c.cal, None, [], [], c.destty, c.env)
    return _default(m, c2)


@model("Option::is_some", "Option::is_none", "Result::is_ok", "Result::is_err")
def _is_some(m, c):
    v = m.strip(c.args[0])
    return {"is_some": v.variant == "Some", "is_none": v.variant == "None", "is_ok": v.variant == "Ok", "is_err": v.variant == "Err"}[c.cal.method]


@model("Option::map", "Result::map")
def _opt_map(m, c):
    v = c.args[0]
    if v.variant == "Some":
        return some(m.call_closure(c.args[1], [v.fields[0]]))
    if v.variant == "Ok":
        return ok(m.call_closure(c.args[1], [v.fields[0]]))
    return v


@model("Result::map_err")
def _map_err(m, c):
    v = c.args[0]
    if v.variant == "Err":
        return err(m.call_closure(c.args[1], [v.fields[0]]))
    return v


@model("Option::map_or", "Result::map_or")
def _map_or(m, c):
    v = c.args[0]
    if v.variant in ("Some", "Ok"):
        return m.call_closure(c.args[2], [v.fields[0]])
    return c.args[1]


@model("Option::and_then", "Result::and_then")
def _and_then(m, c):
    v = c.args[0]
    if v.variant in ("Some", "Ok"):
        return m.call_closure(c.args[1], [v.fields[0]])
    return v


@model("Option::ok_or")
def _ok_or(m, c):
    v = c.args[0]
    return ok(v.fields[0]) if v.variant == "Some" else err(c.args[1])


@model("Option::ok_or_else")
def _ok_or_else(m, c):
    v = c.args[0]
    return ok(v.fields[0]) if v.variant == "Some" else err(m.call_closure(c.args[1], []))


@model("Result::ok")
def _res_ok(m, c):
    v = c.args[0]
    return some(v.fields[0]) if v.variant == "Ok" else NONE


@model("Option::as_ref", "Option::as_mut", "Result::as_ref")
def _as_ref(m, c):
    r = c.args[0]
    v = m.deref(r)
    if v.variant in ("Some", "Ok"):
        return Enum(v.name, v.variant, v.idx, [Ref(r.cell, r.path + (("f", 0),), r.mut)])
    if v.variant == "Err":
        return Enum(v.name, v.variant, v.idx, [Ref(r.cell, r.path + (("f", 0),), r.mut)])
    return v


@model("Option::cloned", "Option::copied")
def _opt_cloned(m, c):
    v = c.args[0]
    return some(m.deref(v.fields[0])) if v.variant == "Some" else v


@model("Try::branch")
def _branch(m, c):
    v = c.args[0]
    if v.variant in ("Ok", "Some"):
        return Enum("ControlFlow", "Continue", 0, [v.fields[0]])
    return Enum("ControlFlow", "Break", 1, [v])   # residual keeps the Err/None


@model("FromResidual::from_residual")
def _from_residual(m, c):
    v = c.args[0]
    return v


@model("Try::from_output")
def _from_output(m, c):
    d = c.destty
    return some(c.args[0]) if d.k == "adt" and d.name == "Option" else ok(c.args[0])


# ------------------------------------------------------------------ comparisons
def _cmp_vals(m, a, b):
    """-> ('num', x, y, isfloat) for primitive comparisons"""
    a, b = m.strip(a), m.strip(b)
    return a, b


def _peel_refs(m, c, trait, method, ret):
    """std blanket impls `impl Trait<&B> for &A where A: Trait<B>`: forward to the inner types"""
    st = c.self_ty
    rhs = subst(c.cal.trait_args[0], c.env) if c.cal.trait_args else st
    if st is not None and rhs is not None and st.k == "ref" and rhs.k == "ref" and isinstance(c.args[0], Ref) and isinstance(c.args[1], Ref):
        ia, ib = m.deref(c.args[0]), m.deref(c.args[1])
        if isinstance(ia, Ref) and isinstance(ib, Ref):
            return m.call_text(f"<{show(st.args[0])} as {trait}<{show(rhs.args[0])}>>::{method}", [ia, ib],
                               [Ty("ref", None, (st.args[0],), False), Ty("ref", None, (rhs.args[0],), False)], ret, c.env)
    return NotImplemented


@model("PartialEq::eq")
def _peq(m, c):
    r = _peel_refs(m, c, "PartialEq", "eq", parse_type("bool"))
    if r is not NotImplemented:
        return r
    return elem_eq(m, c.args[0], c.args[1])


@model("PartialEq::ne")
def _pne(m, c):
    # default method: !eq  (in-crate eq when there is one)
    r = _peel_refs(m, c, "PartialEq", "ne", parse_type("bool"))
    if r is not NotImplemented:
        return r
    a, b = c.args
    st = c.self_ty
    try:
        r = m.call_text(f"<{show(st)} as PartialEq<{show(subst(c.cal.trait_args[0], c.env)) if c.cal.trait_args else show(st)}>>::eq",
                        [a, b], c.argtys, parse_type("bool"), c.env)
    except Unsupported:
        r = val_eq(m, a, b)
    return b_not(r)


def _prim_partial_cmp(m, a, b):
    a, b = m.strip(a), m.strip(b)
    if isinstance(a, F) and isinstance(b, F):
        lt, eq = f_cmp("lt", a, b), f_cmp("eq", a, b)
    elif (isinstance(a, int) or is_sym(a)) and (isinstance(b, int) or is_sym(b)):
        lt, eq = i_cmp("lt", a, b), i_cmp("eq", a, b)
    elif isinstance(a, NDT) and isinstance(b, NDT):
        lt = b_or(i_cmp("lt", a.day, b.day), b_and(i_cmp("eq", a.day, b.day), i_cmp("lt", a.sec, b.sec)))
        eq = b_and(i_cmp("eq", a.day, b.day), i_cmp("eq", a.sec, b.sec))
    elif isinstance(a, Str) and isinstance(b, Str):
        lt, eq = a.s < b.s, a.s == b.s
    else:
        raise Unsupported(f"partial_cmp on {type(a).__name__}")
    if m.decide(lt):
        return ordering(-1)
    if m.decide(eq):
        return ordering(0)
    return ordering(1)


@model("PartialOrd::partial_cmp")
def _partial_cmp(m, c):
    r = _peel_refs(m, c, "PartialOrd", "partial_cmp", parse_type("Option<Ordering>"))
    if r is not NotImplemented:
        return r
    return some(_prim_partial_cmp(m, c.args[0], c.args[1]))


@model("Ord::cmp")
def _ord_cmp(m, c):
    return _prim_partial_cmp(m, c.args[0], c.args[1])


def _ord_default(name):
    def f(m, c):
        r = _peel_refs(m, c, "PartialOrd", name, parse_type("bool"))
        if r is not NotImplemented:
            return r
        a, b = c.args
        sa, sb = m.strip(a), m.strip(b)
        op = {"lt": "lt", "le": "le", "gt": "gt", "ge": "ge"}[name]
        if isinstance(sa, F) and isinstance(sb, F):
            return f_cmp(op, sa, sb)
        if (isinstance(sa, int) or is_sym(sa)) and (isinstance(sb, int) or is_sym(sb)) and not isinstance(sa, bool):
            return i_cmp(op, sa, sb)
        if isinstance(sa, NDT):
            o = _prim_partial_cmp(m, sa, sb)
            return {"lt": o.idx < 0, "le": o.idx <= 0, "gt": o.idx > 0, "ge": o.idx >= 0}[name]
        # default method via (in-crate) partial_cmp
        st = c.self_ty
        rhs = subst(c.cal.trait_args[0], c.env) if c.cal.trait_args else st
        o = m.call_text(f"<{show(st)} as PartialOrd<{show(rhs)}>>::partial_cmp", [a, b], c.argtys, parse_type("Option<Ordering>"), c.env)
        if o.variant == "None":
            return False
        k = o.fields[0].idx
        return {"lt": k < 0, "le": k <= 0, "gt": k > 0, "ge": k >= 0}[name]
    f.__name__ = "_ord_" + name
    return f


for _n in ("lt", "le", "gt", "ge"):
    REG["PartialOrd::" + _n] = _ord_default(_n)


@model("Ordering::is_lt", "Ordering::is_le", "Ordering::is_gt", "Ordering::is_ge", "Ordering::is_eq", "Ordering::is_ne")
def _ordering_is(m, c):
    k = m.strip(c.args[0]).idx
    return {"is_lt": k < 0, "is_le": k <= 0, "is_gt": k > 0, "is_ge": k >= 0, "is_eq": k == 0, "is_ne": k != 0}[c.cal.method]


@model("Ord::max", "Ord::min", "cmp::max", "cmp::min")
def _maxmin(m, c):
    a, b = c.args
    if isinstance(a, F):
        ge = f_cmp("ge", a, b)
    else:
        ge = i_cmp("ge", a, b)
    g = m.decide(ge)
    if c.cal.method == "max":
        return a if g else b      # max returns the second on ties; values equal then
    return b if g else a


# ------------------------------------------------------------------ arithmetic traits on primitives
def _arith(op):
    def f(m, c):
        return num_binop(m, op, c.args[0], c.args[1])
    f.__name__ = "_arith_" + op
    return f


for _t, _o in (("Add", "add"), ("Sub", "sub"), ("Mul", "mul"), ("Div", "div"), ("Rem", "rem")):
    REG[f"{_t}::{_o}"] = _arith(_o)


@model("Neg::neg")
def _neg(m, c):
    return num_neg(m, c.args[0])


def _assign_arith(op):
    def f(m, c):
        r = c.args[0]
        cur = m.deref(r)
        m.write(r, num_binop(m, op, cur, c.args[1]))
        return UNIT
    f.__name__ = "_assign_" + op
    return f


for _t, _o in (("AddAssign", "add"), ("SubAssign", "sub"), ("MulAssign", "mul"), ("DivAssign", "div")):
    REG[f"{_t}::{_o}_assign"] = _assign_arith(_o)


@model("Not::not")
def _not(m, c):
    return b_not(m.strip(c.args[0]))


# ------------------------------------------------------------------ f64 methods
def fpow(m, x, p):
    """x^p over the reals (x: F, p: F); small integer exponents exactly, otherwise an uninterpreted function with
    the exponent-shift axiom instantiated against other pow terms of the same base"""
    if not p.sym():
        pv = p.v
        if pv == 0: return F(1)
        if pv == 1: return x
        if pv == 2: return f_bin(m, "mul", x, x)
        if pv == 3: return f_bin(m, "mul", x, f_bin(m, "mul", x, x))
        if pv == -1: return f_bin(m, "div", F(1), x)
        if pv == -2: return f_bin(m, "div", F(1), f_bin(m, "mul", x, x))
        if pv == -3: return f_bin(m, "div", F(1), f_bin(m, "mul", x, f_bin(m, "mul", x, x)))
        if not x.sym() and pv.denominator == 1 and abs(pv) < 64:
            return F(x.v ** int(pv))
    t = m.ufun("pow", x.z(), p.z())
    terms = m.__dict__.setdefault("_pow_terms", [])
    for (x2, p2, t2) in terms:
        if z3.eq(z3.simplify(x2), z3.simplify(x.z())):
            d = z3.simplify(p.z() - p2)
            if z3.is_rational_value(d) and d.denominator_as_long() == 1:
                k = d.numerator_as_long()
                if 0 < k <= 3:
                    e = t2
                    for _ in range(k):
                        e = e * x.z()
                    m.define(z3.Implies(x.z() != 0, t == e))
                elif -3 <= k < 0:
                    e = t
                    for _ in range(-k):
                        e = e * x.z()
                    m.define(z3.Implies(x.z() != 0, t2 == e))
    terms.append((x.z(), p.z(), t))
    m.axioms.append("pow(x,p)=pow(x,p-k)*x^k for co-occurring terms (x!=0)")
    return F(t)


@model("f64::powf", "Pow::pow", "f64::pow", "f64::powi")
def _powf(m, c):
    x, p = m.strip(c.args[0]), m.strip(c.args[1])
    if isinstance(p, int):
        p = F(p)
    return fpow(m, x, p)


@model("f64::exp")
def _exp(m, c):
    x = m.strip(c.args[0])
    t = m.ufun("exp", x.z())
    m.define(t > 0)
    m.axioms.append("exp(x)>0")
    return F(t)


@model("f64::ln")
def _ln(m, c):
    x = m.strip(c.args[0])
    return F(m.ufun("ln", x.z()))


@model("f64::sqrt")
def _sqrt(m, c):
    x = m.strip(c.args[0])
    return fsqrt(m, x)


def fsqrt(m, x):
    if not x.sym():
        import math
        if x.v >= 0:
            r = Fraction(math.isqrt(x.v.numerator), math.isqrt(x.v.denominator))
            if r * r == x.v:
                return F(r)
    s = m.ufun("sqrt", x.z())
    m.define(z3.Implies(x.z() >= 0, z3.And(s >= 0, s * s == x.z())))
    m.axioms.append("sqrt(x)>=0 and sqrt(x)^2=x for x>=0")
    return F(s)


@model("f64::abs", "Signed::abs")
def _fabs(m, c):
    x = m.strip(c.args[0])
    if isinstance(x, F):
        return f_abs(x)
    if is_sym(x):
        return z3.If(x >= 0, x, -x)
    return abs(x)


@model("f64::trunc")
def _ftrunc(m, c):
    return f_trunc(m, m.strip(c.args[0]))


@model("f64::signum", "Signed::signum")
def _fsignum(m, c):
    x = m.strip(c.args[0])
    if isinstance(x, F):
        if not x.sym():
            return F(1 if x.v >= 0 else -1)
        return F(z3.If(bz(f_cmp("ge", x, F(0))), rv(1), rv(-1)))
    if is_sym(x):
        return z3.If(x > 0, 1, z3.If(x == 0, 0, -1))
    return (x > 0) - (x < 0)


@model("f64::is_sign_positive", "Signed::is_positive")
def _is_pos(m, c):
    x = m.strip(c.args[0])
    return f_cmp("gt" if c.cal.method == "is_positive" else "ge", x, F(0))


@model("f64::is_sign_negative", "Signed::is_negative")
def _is_neg(m, c):
    x = m.strip(c.args[0])
    return f_cmp("lt", x, F(0))


@model("f64::is_nan", "f64::is_infinite")
def _is_nan(m, c):
    return False


@model("f64::is_finite")
def _is_finite(m, c):
    return True


@model("Zero::zero")
def _zero(m, c):
    d = c.destty
    if d.k == "prim" and d.name == "f64":
        return F(0)
    if d.k == "prim":
        return 0
    raise Unsupported("Zero::zero for " + show(d))


@model("One::one")
def _one(m, c):
    d = c.destty
    if d.k == "prim" and d.name == "f64":
        return F(1)
    if d.k == "prim":
        return 1
    raise Unsupported("One::one for " + show(d))


@model("Zero::is_zero")
def _is_zero(m, c):
    x = m.strip(c.args[0])
    if isinstance(x, F):
        return f_cmp("eq", x, F(0))
    return i_cmp("eq", x, 0)


# integers
@model("i32::abs", "i64::abs", "i8::abs", "i16::abs", "isize::abs")
def _iabs(m, c):
    x = c.args[0]
    rng = m.int_range(c.destty)
    if is_sym(x):
        if rng and m.decide(x == rng[0]):
            raise RustPanic("attempt to negate with overflow (abs)")
        return z3.If(x >= 0, x, -x)
    if rng and x == rng[0]:
        raise RustPanic("attempt to negate with overflow (abs)")
    return abs(x)


@model("i32::signum", "i64::signum", "i8::signum")
def _isignum(m, c):
    x = c.args[0]
    if is_sym(x):
        return z3.If(x > 0, 1, z3.If(x == 0, 0, -1))
    return (x > 0) - (x < 0)


@model("i32::rem_euclid", "i64::rem_euclid")
def _rem_euclid(m, c):
    a, b = c.args
    if not is_sym(a) and not is_sym(b):
        return a % abs(b)
    return iz(a) % iz(b)


@model("i32::div_euclid", "i64::div_euclid")
def _div_euclid(m, c):
    a, b = c.args
    if not is_sym(a) and not is_sym(b):
        q = a // abs(b)
        return q if b > 0 else -q
    return iz(a) / iz(b)


@model("i8::unsigned_abs", "i32::unsigned_abs", "i64::unsigned_abs")
def _unsigned_abs(m, c):
    x = c.args[0]
    if is_sym(x):
        return z3.If(x >= 0, x, -x)
    return abs(x)


@model("i8::wrapping_abs", "i32::wrapping_abs")
def _wrapping_abs(m, c):
    x = c.args[0]
    rng = m.int_range(c.destty)
    if is_sym(x):
        return z3.If(x == rng[0], x, z3.If(x >= 0, x, -x))
    return x if x == rng[0] else abs(x)



def _int_ty(m, c):
    t = c.argtys[0] if c.argtys else None
    while t is not None and t.k == "ref":
        t = t.args[0]
    return m.int_range(t)


def _arith(op, a, b):
    a, b = (iz(a) if is_sym(a) or is_sym(b) else a), (iz(b) if is_sym(a) or is_sym(b) else b)
    return a + b if op == "add" else a - b if op == "sub" else a * b


@model("usize::saturating_sub", "u8::saturating_sub", "u16::saturating_sub", "u32::saturating_sub", "u64::saturating_sub", "isize::saturating_sub", "i8::saturating_sub", "i16::saturating_sub", "i32::saturating_sub", "i64::saturating_sub", "usize::saturating_add", "u8::saturating_add", "u16::saturating_add", "u32::saturating_add", "u64::saturating_add", "isize::saturating_add", "i8::saturating_add", "i16::saturating_add", "i32::saturating_add", "i64::saturating_add")
def _saturating(m, c):
    op = "sub" if c.cal.method.endswith("_sub") else "add"
    lo, hi = _int_ty(m, c)
    r = _arith(op, c.args[0], c.args[1])
    if is_sym(r):
        return z3.If(r < lo, z3.IntVal(lo), z3.If(r > hi, z3.IntVal(hi), r))
    return min(max(r, lo), hi)


@model("usize::wrapping_sub", "u8::wrapping_sub", "u16::wrapping_sub", "u32::wrapping_sub", "u64::wrapping_sub", "isize::wrapping_sub", "i8::wrapping_sub", "i16::wrapping_sub", "i32::wrapping_sub", "i64::wrapping_sub", "usize::wrapping_add", "u8::wrapping_add", "u16::wrapping_add", "u32::wrapping_add", "u64::wrapping_add", "isize::wrapping_add", "i8::wrapping_add", "i16::wrapping_add", "i32::wrapping_add", "i64::wrapping_add", "usize::wrapping_mul", "u8::wrapping_mul", "u16::wrapping_mul", "u32::wrapping_mul", "u64::wrapping_mul", "isize::wrapping_mul", "i8::wrapping_mul", "i16::wrapping_mul", "i32::wrapping_mul", "i64::wrapping_mul")
def _wrapping(m, c):
    op = c.cal.method.rsplit("_", 1)[1]
    lo, hi = _int_ty(m, c)
    r = _arith(op, c.args[0], c.args[1])
    n = hi - lo + 1
    if is_sym(r):
        return (r - lo) % n + lo
    return (r - lo) % n + lo


@model("usize::checked_sub", "u8::checked_sub", "u16::checked_sub", "u32::checked_sub", "u64::checked_sub", "isize::checked_sub", "i8::checked_sub", "i16::checked_sub", "i32::checked_sub", "i64::checked_sub", "usize::checked_add", "u8::checked_add", "u16::checked_add", "u32::checked_add", "u64::checked_add", "isize::checked_add", "i8::checked_add", "i16::checked_add", "i32::checked_add", "i64::checked_add", "usize::checked_mul", "u8::checked_mul", "u16::checked_mul", "u32::checked_mul", "u64::checked_mul", "isize::checked_mul", "i8::checked_mul", "i16::checked_mul", "i32::checked_mul", "i64::checked_mul")
def _checked(m, c):
    op = c.cal.method.rsplit("_", 1)[1]
    lo, hi = _int_ty(m, c)
    r = _arith(op, c.args[0], c.args[1])
    inside = z3.And(r >= lo, r <= hi) if is_sym(r) else (lo <= r <= hi)
    return some(r) if m.decide(inside) else NONE


@model("usize::abs_diff", "u8::abs_diff", "u16::abs_diff", "u32::abs_diff", "u64::abs_diff", "isize::abs_diff", "i8::abs_diff", "i16::abs_diff", "i32::abs_diff", "i64::abs_diff")
def _abs_diff(m, c):
    r = _arith("sub", c.args[0], c.args[1])
    if is_sym(r):
        return z3.If(r >= 0, r, -r)
    return abs(r)

# ------------------------------------------------------------------ statrs
@model("Normal::new")
def _normal_new(m, c):
    return ok(Opaque("Normal"))


@model("ContinuousCDF::cdf", "Normal::cdf")
def _cdf(m, c):
    x = m.strip(c.args[1])
    return F(m.ufun("Phi", x.z()))


@model("ContinuousCDF::inverse_cdf", "Normal::inverse_cdf")
def _inv_cdf(m, c):
    x = m.strip(c.args[1])
    return F(m.ufun("PhiInv", x.z()))


# ------------------------------------------------------------------ more f64 methods
def f_floor(m, x):
    if not x.sym():
        import math
        return F(math.floor(x.v))
    if x.d is not None:
        x = F(m.quotient(x.num(), x.d))
    t = m.fresh_int("floor")
    tr = z3.ToReal(t)
    m.define(z3.And(tr <= x.v, x.v < tr + 1))
    return F(tr)


@model("f64::floor")
def _floor(m, c):
    return f_floor(m, m.strip(c.args[0]))


@model("f64::ceil")
def _ceil(m, c):
    return f_neg(f_floor(m, f_neg(m.strip(c.args[0]))))


@model("f64::round")
def _round(m, c):
    x = m.strip(c.args[0])
    # round half away from zero
    pos = f_floor(m, f_bin(m, "add", x, F(Fraction(1, 2))))
    neg = f_neg(f_floor(m, f_bin(m, "add", f_neg(x), F(Fraction(1, 2)))))
    if m.decide(f_cmp("ge", x, F(0))):
        return pos
    return neg


@model("f64::fract")
def _fract(m, c):
    x = m.strip(c.args[0])
    return f_bin(m, "sub", x, f_trunc(m, x))


@model("f64::recip")
def _recip(m, c):
    return f_bin(m, "div", F(1), m.strip(c.args[0]))


@model("f64::max", "f64::min")
def _fmaxmin(m, c):
    a, b = m.strip(c.args[0]), m.strip(c.args[1])
    g = m.decide(f_cmp("ge", a, b))
    if c.cal.method == "max":
        return a if g else b
    return b if g else a


@model("f64::mul_add")
def _mul_add(m, c):
    a, b, d = (m.strip(x) for x in c.args)
    return f_bin(m, "add", f_bin(m, "mul", a, b), d)


@model("f64::clamp")
def _clamp(m, c):
    x, lo, hi = (m.strip(v) for v in c.args)
    if m.decide(f_cmp("lt", x, lo)):
        return lo
    if m.decide(f_cmp("gt", x, hi)):
        return hi
    return x


@model("f64::copysign")
def _copysign(m, c):
    x, s = m.strip(c.args[0]), m.strip(c.args[1])
    ax = f_abs(x)
    return ax if m.decide(f_cmp("ge", s, F(0))) else f_neg(ax)


@model("f64::exp_m1")
def _exp_m1(m, c):
    x = m.strip(c.args[0])
    return F(m.ufun("exp", x.z()) - 1)


@model("f64::ln_1p")
def _ln_1p(m, c):
    x = m.strip(c.args[0])
    return F(m.ufun("ln", x.z() + 1))


@model("f64::sin", "f64::cos", "f64::tan", "f64::tanh", "f64::sinh", "f64::cosh", "f64::atan", "f64::log10", "f64::log2", "f64::exp2", "f64::cbrt")
def _uf1(m, c):
    x = m.strip(c.args[0])
    return F(m.ufun(c.cal.method, x.z()))


# ------------------------------------------------------------------ internment
@model("Intern::new", "Intern::from", "Intern::from_ref")
def _intern_new(m, c):
    return m.strip(c.args[0])


@model("Intern::as_ref")
def _intern_as_ref(m, c):
    return c.args[0]


@model("must_use", "hint::must_use", "convert::identity", "identity", "hint::black_box")
def _identity(m, c):
    return c.args[0]


# ------------------------------------------------------------------ vec![..] lowering of newer rustc
@model("Box::new_uninit")
def _box_new_uninit(m, c):
    cell = Cell(None)
    return Struct("BoxUninit", [Tup([Ref(cell, (), True)])])


@model("box_assume_init_into_vec_unsafe", "boxed::box_assume_init_into_vec_unsafe")
def _box_into_vec(m, c):
    b = c.args[0]
    cell = b.fields[0].fields[0].cell
    v = cell.v
    # MaybeUninit { uninit: (), value: ManuallyDrop(MaybeDangling([T; N])) }  -> the array
    while isinstance(v, Tup):
        nxt = [x for x in v.fields if x is not None]
        if not nxt:
            raise Unsupported("uninitialised vec! box")
        v = nxt[-1]
    return Seq(v.items, v.ety)


@model("Box::assume_init", "Box::write")
def _box_assume_init(m, c):
    raise Unsupported("Box::assume_init")
