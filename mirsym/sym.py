"""Scalar values: machine integers (python int | z3 Int), booleans (bool | z3 Bool) and f64.
f64 has two modes: REAL (exact rationals / z3 Real; the algebraic properties are statements over the reals) and
a concrete float mode used only for translator validation against the repo's own tests."""
import z3
from fractions import Fraction

Z = z3


def is_sym(x):
    return isinstance(x, z3.ExprRef)


class F:
    """an f64 value in real mode.  v: Fraction | z3 Real (the value, or the NUMERATOR when d is set);
    d: None | z3 Real denominator (fraction mode: value = v/d, d assumed non-zero where it matters)"""
    __slots__ = ("v", "d", "ar")

    def __init__(self, v, d=None):
        # ar: "arithmetic applied" taint - False for inputs/literals and values that merely flowed (moves, clones, selections),
        # True for the result of any floating-point operation that is not exactly neutral.  Real arithmetic cannot see
        # rounding; the taint lets a clause demand 'returned exactly, with no operation on the way'.
        self.ar = False
        if isinstance(v, F):
            self.ar = v.ar
            v, d = v.v, v.d
        elif isinstance(v, (int,)) and not isinstance(v, bool):
            v = Fraction(v)
        elif isinstance(v, float):
            v = Fraction(v)
        self.v = v
        self.d = d

    def __repr__(self):
        return f"F({self.v})" if self.d is None else f"F({self.v} / {self.d})"

    def sym(self):
        return is_sym(self.v) or self.d is not None

    def num(self):
        return self.v if is_sym(self.v) else rv(self.v)

    def z(self):
        """a single z3 term for the value (uses z3 real division for fractions)"""
        n = self.num()
        return n if self.d is None else n / self.d

    def pair(self):
        return self.num(), (self.d if self.d is not None else z3.RealVal(1))


def _fr_bin(op, a, b):
    """exact fraction arithmetic on F values (no fresh variables): the result carries an explicit denominator"""
    if a.d is None and b.d is None and not is_sym(a.v) and not is_sym(b.v):
        if op == "add": return F(a.v + b.v)
        if op == "sub": return F(a.v - b.v)
        if op == "mul": return F(a.v * b.v)
        if op == "div" and b.v != 0: return F(a.v / b.v)
    (n1, d1), (n2, d2) = a.pair(), b.pair()
    one1, one2 = a.d is None, b.d is None
    if op in ("add", "sub"):
        if one1 and one2:
            return F(n1 + n2 if op == "add" else n1 - n2)
        if (one1 and one2) or (not one1 and not one2 and z3.eq(d1, d2)):
            return F(n1 + n2 if op == "add" else n1 - n2, d1)
        if one2:
            return F(n1 + n2 * d1 if op == "add" else n1 - n2 * d1, d1)
        if one1:
            return F(n1 * d2 + n2 if op == "add" else n1 * d2 - n2, d2)
        return F(n1 * d2 + n2 * d1 if op == "add" else n1 * d2 - n2 * d1, d1 * d2)
    if op == "mul":
        if not is_sym(a.v) and a.d is None:
            if a.v == 0: return F(0)
            if a.v == 1: return b
        if not is_sym(b.v) and b.d is None:
            if b.v == 0: return F(0)
            if b.v == 1: return a
        d = None if (one1 and one2) else (d2 if one1 else d1 if one2 else d1 * d2)
        return F(n1 * n2, d)
    if op == "div":
        if one2 and not is_sym(b.v) and b.v != 0:
            return F(n1 * rv(1 / Fraction(b.v)), a.d)
        nd = n2 if one1 else d1 * n2
        nn = n1 if one2 else n1 * d2
        return F(nn, nd)
    raise ValueError(op)


def fr_eq(a, b):
    """a == b as a division-free formula (denominators non-zero)"""
    (n1, d1), (n2, d2) = a.pair(), b.pair()
    if a.d is None and b.d is None:
        return n1 == n2
    if a.d is None:
        return n1 * d2 == n2
    if b.d is None:
        return n1 == n2 * d1
    return n1 * d2 == n2 * d1


def fr_ite(c, a, b):
    if c is True: return a
    if c is False: return b
    (n1, d1), (n2, d2) = a.pair(), b.pair()
    if a.d is None and b.d is None:
        r = F(z3.If(c, n1, n2))
    else:
        r = F(z3.If(c, n1, n2), z3.If(c, d1, d2))
    r.ar = a.ar or b.ar
    return r


def _tainted(r, a, b):
    if r is a or r is b:          # exactly neutral operation (x*1, x+0): the operand itself flows on
        return r
    r.ar = True
    return r


def fr_bin(op, a, b):
    return _tainted(_fr_bin(op, a, b), a, b)


def f_bin(m, op, a, b):
    return _tainted(_f_bin(m, op, a, b), a, b)


def rv(fr):
    fr = Fraction(fr)
    return z3.RealVal(f"{fr.numerator}/{fr.denominator}") if fr.denominator != 1 else z3.RealVal(fr.numerator)


def iz(x):
    return x if is_sym(x) else z3.IntVal(x)


def bz(x):
    return x if is_sym(x) else z3.BoolVal(bool(x))


# ---------------------------------------------------------------- booleans
def b_not(a):
    if is_sym(a):
        return z3.Not(a)
    return not a


def b_and(a, b):
    if not is_sym(a):
        return b if a else False
    if not is_sym(b):
        return a if b else False
    return z3.And(a, b)


def b_or(a, b):
    if not is_sym(a):
        return True if a else b
    if not is_sym(b):
        return True if b else a
    return z3.Or(a, b)


def b_eq(a, b):
    if not is_sym(a) and not is_sym(b):
        return bool(a) == bool(b)
    return bz(a) == bz(b)


def simp_bool(c):
    if not is_sym(c):
        return bool(c)
    c = z3.simplify(c)
    if z3.is_true(c):
        return True
    if z3.is_false(c):
        return False
    return c


# ---------------------------------------------------------------- integers
def i_bin(op, a, b):
    if not is_sym(a) and not is_sym(b):
        if op == "add": return a + b
        if op == "sub": return a - b
        if op == "mul": return a * b
        if op == "div":
            q = abs(a) // abs(b)
            return q if (a >= 0) == (b >= 0) else -q
        if op == "rem":
            r = abs(a) % abs(b)
            return r if a >= 0 else -r
    a, b = iz(a), iz(b)
    if op == "add": return a + b
    if op == "sub": return a - b
    if op == "mul": return a * b
    if op == "div":
        # truncating division from z3's euclidean one
        q = a / b
        return z3.If(z3.Or(a >= 0, a % b == 0), q, z3.If(b > 0, q + 1, q - 1))
    if op == "rem":
        r = a % b
        return z3.If(z3.Or(a >= 0, r == 0), r, z3.If(b > 0, r - b, r + b))
    raise ValueError(op)


def i_cmp(op, a, b):
    if not is_sym(a) and not is_sym(b):
        return {"eq": a == b, "ne": a != b, "lt": a < b, "le": a <= b, "gt": a > b, "ge": a >= b}[op]
    a, b = iz(a), iz(b)
    return {"eq": a == b, "ne": a != b, "lt": a < b, "le": a <= b, "gt": a > b, "ge": a >= b}[op]


def wrap_int(v, lo, hi):
    m = hi - lo + 1
    if not is_sym(v):
        return (v - lo) % m + lo
    return z3.If(z3.And(v >= lo, v <= hi), v, (v - lo) % m + lo)


# ---------------------------------------------------------------- floats (real mode)
def _f_bin(m, op, a, b):
    """a, b: F.  m: machine (for fresh quotient variables)"""
    if a.d is not None or b.d is not None or (op == "div" and getattr(m, "div_mode", "quot") == "frac" and (is_sym(b.v))):
        if op == "rem":
            q = f_bin(m, "div", a, b)
            t = f_trunc(m, q)
            return f_bin(m, "sub", a, f_bin(m, "mul", t, b))
        if op == "div" and b.sym():
            # the value is only defined when the divisor is non-zero: recorded as an obligation of the path
            m.div_guards.append(b.num() != 0)
        return fr_bin(op, a, b)
    x, y = a.v, b.v
    cx, cy = not is_sym(x), not is_sym(y)
    if cx and cy:
        if op == "add": return F(x + y)
        if op == "sub": return F(x - y)
        if op == "mul": return F(x * y)
        if op == "div":
            if y != 0:
                return F(x / y)
            return F(m.fresh_real("div0"))   # x/0: outside the reals; left unconstrained
    if op == "add":
        if cx and x == 0: return b
        if cy and y == 0: return a
        return F(a.z() + b.z())
    if op == "sub":
        if cy and y == 0: return a
        return F(a.z() - b.z())
    if op == "mul":
        if (cx and x == 0) or (cy and y == 0): return F(0)
        if cx and x == 1: return b
        if cy and y == 1: return a
        return F(a.z() * b.z())
    if op == "div":
        if cy and y != 0:
            return F(a.z() * rv(1 / Fraction(y)))
        if cx and x == 0:
            # 0/y : 0 when y != 0 (y == 0 is outside the reals: unconstrained)
            pass
        return F(m.quotient(a.z(), b.z()))
    if op == "rem":
        # fmod: x - trunc(x/y)*y
        q = f_bin(m, "div", a, b)
        t = f_trunc(m, q)
        return f_bin(m, "sub", a, f_bin(m, "mul", t, b))
    raise ValueError(op)


def f_neg(a):
    r = F(-a.v, a.d)
    r.ar = a.ar           # a sign flip is exact
    return r


TAINTED_EQ = []      # (==, !=) comparisons whose operands are results of floating-point arithmetic (reset by the caller)


def f_cmp(op, a, b):
    if op in ("eq", "ne") and (getattr(a, "ar", False) or getattr(b, "ar", False)):
        TAINTED_EQ.append(op)
    if a.d is not None or b.d is not None:
        (n1, d1), (n2, d2) = a.pair(), b.pair()
        if op == "eq": return fr_eq(a, b)
        if op == "ne": return z3.Not(fr_eq(a, b))
        diff = (n1 * d2 - n2 * d1) * (d1 * d2)     # sign of a-b (times a positive square)
        return {"lt": diff < 0, "le": diff <= 0, "gt": diff > 0, "ge": diff >= 0}[op]
    x, y = a.v, b.v
    if not is_sym(x) and not is_sym(y):
        return {"eq": x == y, "ne": x != y, "lt": x < y, "le": x <= y, "gt": x > y, "ge": x >= y}[op]
    x, y = a.z(), b.z()
    return {"eq": x == y, "ne": x != y, "lt": x < y, "le": x <= y, "gt": x > y, "ge": x >= y}[op]


def f_trunc(m, a):
    if a.d is not None:
        a = F(m.quotient(a.num(), a.d))
    x = a.v
    if not is_sym(x):
        n = abs(x.numerator) // x.denominator
        return F(n if x >= 0 else -n)
    # trunc(x) = t integer with |t| <= |x| < |t|+1 and sign(t)=sign(x)
    t = m.fresh_int("trunc")
    tr = z3.ToReal(t)
    m.define(z3.If(x >= 0, z3.And(tr <= x, x < tr + 1), z3.And(tr >= x, x > tr - 1)))
    return F(tr)


def f_abs(a):
    if a.d is not None:
        n, d = a.pair()
        return F(z3.If(n * d >= 0, n, -n), a.d)
    x = a.v
    if not is_sym(x):
        return F(abs(x))
    return F(z3.If(x >= 0, x, -x))
