"""Scalar values: machine integers (python int | z3 Int), booleans (bool | z3 Bool) and f64.
f64 has two modes: REAL (exact rationals / z3 Real; the algebraic properties are statements over the reals) and
a concrete float mode used only for translator validation against the repo's own tests."""
import z3
from fractions import Fraction

Z = z3


def is_sym(x):
    return isinstance(x, z3.ExprRef)


class F:
    """an f64 value in real mode: v is a Fraction, or a z3 Real expression"""
    __slots__ = ("v",)

    def __init__(self, v):
        if isinstance(v, F):
            v = v.v
        elif isinstance(v, (int,)) and not isinstance(v, bool):
            v = Fraction(v)
        elif isinstance(v, float):
            v = Fraction(v)
        self.v = v

    def __repr__(self):
        return f"F({self.v})"

    def sym(self):
        return is_sym(self.v)

    def z(self):
        return self.v if is_sym(self.v) else rv(self.v)


def rv(fr):
    fr = Fraction(fr)
    return z3.RealVal(f"{fr.numerator}/{fr.denominator}") if fr.denominator != 1 else z3.RealVal(fr.numerator)


def iz(x):
    return x if is_sym(x) else z3.IntVal(x)


def bz(x):
    return x if is_sym(x) else z3.BoolVal(bool(x))


# ---------------------------------------------------------------- booleans
def b_not(a):
    if is_sym(a):
        return z3.Not(a)
    return not a


def b_and(a, b):
    if not is_sym(a):
        return b if a else False
    if not is_sym(b):
        return a if b else False
    return z3.And(a, b)


def b_or(a, b):
    if not is_sym(a):
        return True if a else b
    if not is_sym(b):
        return True if b else a
    return z3.Or(a, b)


def b_eq(a, b):
    if not is_sym(a) and not is_sym(b):
        return bool(a) == bool(b)
    return bz(a) == bz(b)


def simp_bool(c):
    if not is_sym(c):
        return bool(c)
    c = z3.simplify(c)
    if z3.is_true(c):
        return True
    if z3.is_false(c):
        return False
    return c


# ---------------------------------------------------------------- integers
def i_bin(op, a, b):
    if not is_sym(a) and not is_sym(b):
        if op == "add": return a + b
        if op == "sub": return a - b
        if op == "mul": return a * b
        if op == "div":
            q = abs(a) // abs(b)
            return q if (a >= 0) == (b >= 0) else -q
        if op == "rem":
            r = abs(a) % abs(b)
            return r if a >= 0 else -r
    a, b = iz(a), iz(b)
    if op == "add": return a + b
    if op == "sub": return a - b
    if op == "mul": return a * b
    if op == "div":
        # truncating division from z3's euclidean one
        q = a / b
        return z3.If(z3.Or(a >= 0, a % b == 0), q, z3.If(b > 0, q + 1, q - 1))
    if op == "rem":
        r = a % b
        return z3.If(z3.Or(a >= 0, r == 0), r, z3.If(b > 0, r - b, r + b))
    raise ValueError(op)


def i_cmp(op, a, b):
    if not is_sym(a) and not is_sym(b):
        return {"eq": a == b, "ne": a != b, "lt": a < b, "le": a <= b, "gt": a > b, "ge": a >= b}[op]
    a, b = iz(a), iz(b)
    return {"eq": a == b, "ne": a != b, "lt": a < b, "le": a <= b, "gt": a > b, "ge": a >= b}[op]


def wrap_int(v, lo, hi):
    m = hi - lo + 1
    if not is_sym(v):
        return (v - lo) % m + lo
    return z3.If(z3.And(v >= lo, v <= hi), v, (v - lo) % m + lo)


# ---------------------------------------------------------------- floats (real mode)
def f_bin(m, op, a, b):
    """a, b: F.  m: machine (for fresh quotient variables)"""
    x, y = a.v, b.v
    cx, cy = not is_sym(x), not is_sym(y)
    if cx and cy:
        if op == "add": return F(x + y)
        if op == "sub": return F(x - y)
        if op == "mul": return F(x * y)
        if op == "div":
            if y != 0:
                return F(x / y)
            return F(m.fresh_real("div0"))   # x/0: outside the reals; left unconstrained
    if op == "add":
        if cx and x == 0: return b
        if cy and y == 0: return a
        return F(a.z() + b.z())
    if op == "sub":
        if cy and y == 0: return a
        return F(a.z() - b.z())
    if op == "mul":
        if (cx and x == 0) or (cy and y == 0): return F(0)
        if cx and x == 1: return b
        if cy and y == 1: return a
        return F(a.z() * b.z())
    if op == "div":
        if cy and y != 0:
            return F(a.z() * rv(1 / Fraction(y)))
        if cx and x == 0:
            # 0/y : 0 when y != 0 (y == 0 is outside the reals: unconstrained)
            pass
        return F(m.quotient(a.z(), b.z()))
    if op == "rem":
        # fmod: x - trunc(x/y)*y
        q = f_bin(m, "div", a, b)
        t = f_trunc(m, q)
        return f_bin(m, "sub", a, f_bin(m, "mul", t, b))
    raise ValueError(op)


def f_neg(a):
    if not is_sym(a.v):
        return F(-a.v)
    return F(-a.v)


def f_cmp(op, a, b):
    x, y = a.v, b.v
    if not is_sym(x) and not is_sym(y):
        return {"eq": x == y, "ne": x != y, "lt": x < y, "le": x <= y, "gt": x > y, "ge": x >= y}[op]
    x, y = a.z(), b.z()
    return {"eq": x == y, "ne": x != y, "lt": x < y, "le": x <= y, "gt": x > y, "ge": x >= y}[op]


def f_trunc(m, a):
    x = a.v
    if not is_sym(x):
        n = abs(x.numerator) // x.denominator
        return F(n if x >= 0 else -n)
    # trunc(x) = t integer with |t| <= |x| < |t|+1 and sign(t)=sign(x)
    t = m.fresh_int("trunc")
    tr = z3.ToReal(t)
    m.define(z3.If(x >= 0, z3.And(tr <= x, x < tr + 1), z3.And(tr >= x, x > tr - 1)))
    return F(tr)


def f_abs(a):
    x = a.v
    if not is_sym(x):
        return F(abs(x))
    return F(z3.If(x >= 0, x, -x))
