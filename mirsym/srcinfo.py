"""Struct / enum layouts (field order, variant order, explicit discriminants) and impl headers, read from the
Rust sources of /repo.  MIR aggregates name fields while projections use indices, so the declaration order is needed."""
import os, re
from .types import split_top, match_close, parse_type

STD_ENUMS = {
    "Option": [("None", 0, []), ("Some", 1, ["0"])],
    "Result": [("Ok", 0, ["0"]), ("Err", 1, ["0"])],
    "Ordering": [("Less", -1, []), ("Equal", 0, []), ("Greater", 1, [])],
    "ControlFlow": [("Continue", 0, ["0"]), ("Break", 1, ["0"])],
    "Weekday": [(n, i, []) for i, n in enumerate(["Mon", "Tue", "Wed", "Thu", "Fri", "Sat", "Sun"])],
    "Cow": [("Borrowed", 0, ["0"]), ("Owned", 1, ["0"])],
    "Bound": [("Included", 0, ["0"]), ("Excluded", 1, ["0"]), ("Unbounded", 2, [])],
    "FpCategory": [(n, i, []) for i, n in enumerate(["Nan", "Infinite", "Zero", "Subnormal", "Normal"])],
}
STD_STRUCTS = {
    "Range": ["start", "end"], "RangeInclusive": ["start", "end", "exhausted"], "RangeFrom": ["start"], "RangeTo": ["end"],
    "RangeToInclusive": ["end"], "RangeFull": [],
}


def _strip_comments(s):
    s = re.sub(r"/\*.*?\*/", "", s, flags=re.S)
    out = []
    for line in s.split("\n"):
        # remove // comments (not inside string literals — good enough for declarations)
        i = 0
        instr = False
        while i < len(line):
            c = line[i]
            if c == '"' and (i == 0 or line[i - 1] != "\\"):
                instr = not instr
            if not instr and line.startswith("//", i):
                line = line[:i]
                break
            i += 1
        out.append(line)
    return "\n".join(out)


class SrcInfo:
    def __init__(self, repo):
        self.repo = repo
        self.structs = dict(STD_STRUCTS)   # name -> [field names]
        self.enums = {k: list(v) for k, v in STD_ENUMS.items()}  # name -> [(variant, discr, [field names])]
        self._files = {}
        self._impl_cache = {}
        for root, _, files in os.walk(os.path.join(repo, "rust")):
            for f in files:
                p = os.path.join(root, f)
                if f.endswith(".rs") and ("calendars/named/" not in p or f == "mod.rs"):
                    self._scan(p)

    def _scan(self, path):
        try:
            txt = _strip_comments(open(path).read())
        except OSError:
            return
        txt = re.sub(r"#\[[^\]]*\]", "", txt)
        for m in re.finditer(r"\bstruct\s+(\w+)\s*(<[^>{(;]*>)?\s*(\{|\(|;)", txt):
            name = m.group(1)
            if m.group(3) == ";":
                self.structs.setdefault(name, [])
                continue
            i = m.end() - 1
            j = match_close(txt, i)
            body = txt[i + 1:j]
            if m.group(3) == "(":
                n = len([p for p in split_top(body) if p.strip()])
                self.structs[name] = [str(k) for k in range(n)]
            else:
                fields = []
                for part in split_top(body):
                    part = part.strip()
                    mm = re.match(r"^(?:pub(?:\([^)]*\))?\s+)?(\w+)\s*:", part)
                    if mm:
                        fields.append(mm.group(1))
                self.structs[name] = fields
        for m in re.finditer(r"\benum\s+(\w+)\s*(<[^>{]*>)?\s*\{", txt):
            name = m.group(1)
            i = m.end() - 1
            j = match_close(txt, i)
            body = txt[i + 1:j]
            variants = []
            nxt = 0
            for part in split_top(body):
                part = part.strip()
                if not part:
                    continue
                mm = re.match(r"^(\w+)\s*(\(|\{|=|$)", part)
                if not mm:
                    continue
                vn = mm.group(1)
                fields = []
                disc = nxt
                if mm.group(2) == "(":
                    k = match_close(part, mm.end() - 1)
                    fields = [str(q) for q in range(len([p for p in split_top(part[mm.end():k]) if p.strip()]))]
                    rest = part[k + 1:]
                elif mm.group(2) == "{":
                    k = match_close(part, mm.end() - 1)
                    for fp in split_top(part[mm.end():k]):
                        f2 = re.match(r"^\s*(?:pub(?:\([^)]*\))?\s+)?(\w+)\s*:", fp)
                        if f2:
                            fields.append(f2.group(1))
                    rest = part[k + 1:]
                else:
                    rest = part[mm.end() - 1:] if mm.group(2) == "=" else ""
                d = re.search(r"=\s*(-?\d+)", rest)
                if d:
                    disc = int(d.group(1))
                variants.append((vn, disc, fields))
                nxt = disc + 1
            self.enums[name] = variants

    # ---- impl headers by source span
    def span_text(self, span):
        """span = 'path:l1:c1: l2:c2' -> source text"""
        m = re.match(r"^(.*?):(\d+):(\d+): (\d+):(\d+)$", span)
        if not m:
            return None
        path = m.group(1)
        if not os.path.isabs(path):
            path = os.path.join(self.repo, path)
        if path not in self._files:
            try:
                self._files[path] = open(path).read().split("\n")
            except OSError:
                self._files[path] = None
        lines = self._files[path]
        if lines is None:
            return None
        l1, c1, l2, c2 = (int(m.group(k)) for k in (2, 3, 4, 5))
        try:
            if l1 == l2:
                return lines[l1 - 1][c1 - 1:c2 - 1]
            parts = [lines[l1 - 1][c1 - 1:]] + lines[l1:l2 - 1] + [lines[l2 - 1][:c2 - 1]]
            return "\n".join(parts)
        except IndexError:
            return None

    def impl_header(self, span):
        """-> (trait Ty|None, self Ty, generics [names]) or None when the span is not a plain impl header (derive/macro)"""
        if span in self._impl_cache:
            return self._impl_cache[span]
        res = None
        t = self.span_text(span)
        if t and "$" not in t and re.match(r"^\s*(unsafe\s+)?impl\b", t):
            t = " ".join(t.split())
            t = re.sub(r"^(unsafe\s+)?impl", "", t).strip()
            gens = []
            if t.startswith("<"):
                k = match_close(t, 0)
                for g in split_top(t[1:k]):
                    g = g.strip()
                    if g and not g.startswith("'"):
                        gens.append(re.match(r"^(?:const\s+)?(\w+)", g).group(1))
                t = t[k + 1:].strip()
            t = split_top(t, " where ")[0].strip()
            t = t.rstrip("{").strip()
            parts = split_top(t, " for ")
            try:
                if len(parts) == 2 and not parts[0].startswith("for<"):
                    res = (parse_type(parts[0]), parse_type(parts[1]), gens)
                else:
                    res = (None, parse_type(t), gens)
            except Exception:
                res = None
        self._impl_cache[span] = res
        return res
