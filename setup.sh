#!/bin/bash
# one-time setup after a fresh restore (offline): create the work dir and warm the build caches.
# Every check rebuilds what it needs from /repo's current tree anyway; this only saves time.
cd "$(dirname "$0")"
export CARGO_NET_OFFLINE=true
mkdir -p .work evidence
cp /repo/Cargo.lock kani/Cargo.lock 2>/dev/null
( cd kani && cargo kani -Z stubbing --only-codegen --target-dir ../.work/kani-target >/dev/null 2>../.work/setup-kani.log ) &
( cd kani && cargo build --offline --bin replay --target-dir ../.work/replay-target >/dev/null 2>../.work/setup-replay.log && cargo build --offline --release --bin replay --target-dir ../.work/replay-target >/dev/null 2>>../.work/setup-replay.log ) &
( python3-vt -c "from vlib import common; print(common.mir_dump())" > .work/setup-mir.log 2>&1 ) &
( cd replay && cp /repo/Cargo.lock . && cargo build --offline --target-dir ../.work/replay2-target >/dev/null 2>../.work/setup-replay2.log && cargo build --offline --release --target-dir ../.work/replay2-target >/dev/null 2>>../.work/setup-replay2.log ) &
wait
echo "setup done"
exit 0
