#!/usr/bin/env python3
"""apply every seeded mutation to /repo in turn, run the quick check(s) of its property (plus listed extras), undo,
and record the outcome in seeded/<id>/meta.json and seeded/RESULTS.md.   usage: run_seeded.py [ids...]"""
import json, os, subprocess, sys, time, glob
V = '/verif'
EXTRA = {'C01-1': ['C01'], 'C02-2': ['C17'], 'C04-2': ['C06'], 'C05-2': ['C20'], 'C08-1': ['C20'], 'C08-2': ['C20'], 'C10-2': ['C18'], 'C12-1': ['C02', 'C03'],
         'C13-2': ['C13'], 'C15-1': ['C14'], 'C15-2': ['C13'], 'C16-2': ['C10'], 'C19-2': ['C02'], 'C20-1': ['C08', 'C20'], 'C20-2': ['C15', 'C20'], 'C03-1': ['C01']}
ids = sys.argv[1:] or sorted(os.path.basename(d) for d in glob.glob(f'{V}/seeded/C*-*'))
rows = []
for sid in ids:
    d = f'{V}/seeded/{sid}'
    meta = json.load(open(f'{d}/meta.json'))
    prop = meta['property']
    checks = [prop] + [c for c in EXTRA.get(sid, []) if c != prop]
    assert subprocess.run(['git', '-C', '/repo', 'status', '--short', '--untracked-files=no'], capture_output=True, text=True).stdout.strip() == '', 'repo dirty'
    ap = subprocess.run(['git', '-C', '/repo', 'apply', f'{d}/patch.diff'], capture_output=True, text=True)
    if ap.returncode != 0:
        meta['detected_by'] = {'_patch': 'does not apply to the current (repaired) tree: ' + ap.stderr[:200]}
        json.dump(meta, open(f'{d}/meta.json', 'w'), indent=1); rows.append((sid, 'patch does not apply', '')); continue
    det = {}
    try:
        for c in checks:
            t0 = time.time()
            p = subprocess.run(['./check', c, '--tier', 'quick'], cwd=V, capture_output=True, text=True, timeout=3600)
            out = p.stdout
            first = next((l for l in out.splitlines() if l.startswith('counterexample')), '')
            det[c] = {'exit': p.returncode, 'verdict': {0: 'MISSED (check passed)', 1: 'DETECTED (VIOLATION, replayed natively)', 2: 'UNDECIDED (exit 2: no verdict)'}.get(p.returncode, str(p.returncode)),
                      'seconds': round(time.time() - t0), 'first_counterexample': first[:400]}
    finally:
        subprocess.run(['git', '-C', '/repo', 'checkout', '--', '.'])
    meta['detected_by'] = det
    meta['checked_at_repo_commit'] = subprocess.run(['git', '-C', '/repo', 'log', '--format=%h', '-1'], capture_output=True, text=True).stdout.strip()
    json.dump(meta, open(f'{d}/meta.json', 'w'), indent=1)
    rows.append((sid, '; '.join(f"{c}: {v['verdict'].split(' ')[0]} ({v['seconds']}s)" for c, v in det.items()), next((v['first_counterexample'] for v in det.values() if v['exit'] == 1), '')[:160]))
    print(rows[-1], flush=True)
with open(f'{V}/seeded/RESULTS.md', 'w') as f:
    f.write('# Seeded mutations vs. quick checks\n\nEach row: a confirmed property-breaking change (fresh sub-agent, property text only) applied to /repo, the quick check(s) run, the patch undone.\n\n| mutation | verdicts | first counterexample |\n|---|---|---|\n')
    for r in rows:
        f.write(f"| {r[0]} | {r[1]} | {r[2].replace('|', '/')} |\n")
print('done')
