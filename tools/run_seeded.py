#!/usr/bin/env python3
"""apply every seeded mutation in turn to a SCRATCH worktree of /repo (never /repo itself; the checks run in experiment
mode: VERIF_REPO / VERIF_WORK, evidence under the scratch work dir), run the quick check(s) of its property (plus listed
extras), undo, and record the outcome in seeded/<id>/meta.json and seeded/RESULTS.md.
usage: SEEDED_WT=/tmp/wseed SEEDED_WK=/tmp/vseed run_seeded.py [ids...]   (the worktree is created if missing)"""
import json, os, subprocess, sys, time, glob
V = '/verif'
CODE = os.environ.get('SEEDED_CODE', V)      # a frozen copy of the checking code may be used so that the matrix is not disturbed by edits
WT = os.environ.get('SEEDED_WT', '/tmp/wseed')
WK = os.environ.get('SEEDED_WK', '/tmp/vseed')
if not os.path.isdir(WT):
    subprocess.run(['git', '-C', '/repo', 'worktree', 'add', '--detach', WT, 'HEAD'], check=True)
os.makedirs(WK, exist_ok=True)
ENV = dict(os.environ, VERIF_REPO=WT, VERIF_WORK=WK)
EXTRA = {'C01-1': ['C01'], 'C02-2': ['C17'], 'C04-2': ['C06'], 'C05-2': ['C20'], 'C08-1': ['C20'], 'C08-2': ['C20'], 'C10-2': ['C18'], 'C12-1': ['C02', 'C03'],
         'C13-2': ['C13'], 'C15-1': ['C14'], 'C15-2': ['C13'], 'C16-2': ['C10'], 'C19-2': ['C02'], 'C20-1': ['C08', 'C20'], 'C20-2': ['C15', 'C20'], 'C03-1': ['C01'],
         'C04-3': ['C06'], 'C10-3': ['C02'], 'C12-3': ['C11'], 'C20-3': ['C08'], 'C02-3': ['C17'], 'C15-3': ['C14'], 'C20-4': ['C02']}
ids = sys.argv[1:] or sorted(os.path.basename(d) for d in glob.glob(f'{V}/seeded/C*-*'))
rows = []
for sid in ids:
    d = f'{V}/seeded/{sid}'
    meta = json.load(open(f'{d}/meta.json'))
    prop = meta['property']
    checks = [prop] + [c for c in EXTRA.get(sid, []) if c != prop]
    assert subprocess.run(['git', '-C', WT, 'status', '--short', '--untracked-files=no'], capture_output=True, text=True).stdout.strip() == '', 'repo dirty'
    ap = subprocess.run(['git', '-C', WT, 'apply', f'{d}/patch.diff'], capture_output=True, text=True)
    if ap.returncode != 0:
        meta['detected_by'] = {'_patch': 'does not apply to the current (repaired) tree: ' + ap.stderr[:200]}
        json.dump(meta, open(f'{d}/meta.json', 'w'), indent=1); rows.append((sid, 'patch does not apply', '')); continue
    det = {}
    try:
        for c in checks:
            t0 = time.time()
            p = subprocess.run(['./check', c, '--tier', 'quick'], cwd=CODE, capture_output=True, text=True, timeout=3600, env=ENV)
            out = p.stdout
            first = next((l for l in out.splitlines() if l.startswith('counterexample')), '')
            det[c] = {'exit': p.returncode, 'verdict': {0: 'MISSED (check passed)', 1: 'DETECTED (VIOLATION, replayed natively)', 2: 'UNDECIDED (exit 2: no verdict)'}.get(p.returncode, str(p.returncode)),
                      'seconds': round(time.time() - t0), 'first_counterexample': first[:400]}
    finally:
        subprocess.run(['git', '-C', WT, 'checkout', '--', '.'])
    meta['detected_by'] = det
    meta['checked_at_repo_commit'] = subprocess.run(['git', '-C', '/repo', 'log', '--format=%h', '-1'], capture_output=True, text=True).stdout.strip()
    json.dump(meta, open(f'{d}/meta.json', 'w'), indent=1)
    rows.append((sid, '; '.join(f"{c}: {v['verdict'].split(' ')[0]} ({v['seconds']}s)" for c, v in det.items()), next((v['first_counterexample'] for v in det.values() if v['exit'] == 1), '')[:160]))
    print(rows[-1], flush=True)
if sys.argv[1:]:
    print('partial run: RESULTS.md not rewritten'); sys.exit(0)
with open(f'{V}/seeded/RESULTS.md', 'w') as f:
    f.write('# Seeded mutations vs. quick checks\n\nEach row: a confirmed property-breaking change (fresh sub-agent, property text only) applied to a scratch worktree of /repo, the quick check(s) run against it, the patch undone.\n\n| mutation | verdicts | first counterexample |\n|---|---|---|\n')
    for r in rows:
        f.write(f"| {r[0]} | {r[1]} | {r[2].replace('|', '/')} |\n")
print('done')
