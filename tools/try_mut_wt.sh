#!/bin/bash
# experiment on a scratch worktree (never /repo): usage try_mut_wt.sh <worktree> <workdir> <patch|-> Cxx [Cyy...]
# NOTE: cleans untracked files of the worktree except target/, patch.diff, demo*, _out, *.log (round 3 lost two deliverables to an unrestricted clean)
wt=$1; wk=$2; patch=$3; shift 3
cd $wt || exit 9
git checkout -q -- . ; git clean -fdq -e target -e patch.diff -e 'demo*' -e '_out' -e '*.log'
if [ "$patch" != "-" ]; then git apply "$patch" || { echo "patch does not apply"; exit 9; }; fi
mkdir -p $wk
for id in "$@"; do
  t0=$(date +%s)
  out=$(cd /verif && VERIF_REPO=$wt VERIF_WORK=$wk VERIF_JOBS=${VERIF_JOBS:-8} timeout ${TMO:-1700} ./check $id --tier ${TIER:-quick} 2>&1); rc=$?
  echo "[$id rc=$rc $(( $(date +%s) - t0 ))s] $(echo "$out" | grep -E 'VIOLATION|KNOWN-FINDING|counterexample|UNDECIDED|undecided|ENCODING|Error|error' | head -5 | cut -c1-300)"
done
git checkout -q -- .
