#!/usr/bin/env python3
"""compile seeded/RESULTS.md from the meta.json files written by tools/run_seeded.py"""
import json, glob, os
V = '/verif'
rows = []
for d in sorted(glob.glob(f'{V}/seeded/C*-*')):
    m = json.load(open(f'{d}/meta.json'))
    det = m.get('detected_by', {})
    verd = '; '.join(f"{c}: {v['verdict'].split(' ')[0]} ({v['seconds']}s)" for c, v in det.items() if isinstance(v, dict))
    first = next((v['first_counterexample'] for v in det.values() if isinstance(v, dict) and v.get('exit') == 1), '')[:170]
    rows.append((os.path.basename(d), verd or str(det)[:80], first, m.get('note', '')))
with open(f'{V}/seeded/RESULTS.md', 'w') as f:
    f.write('# Seeded changes vs. the quick checks\n\nEach row: a confirmed property-breaking change (written by a fresh sub-agent given only the property text; suite still 229/229 with it) applied to a scratch worktree of /repo, the quick check(s) run against it in experiment mode, the patch undone. DETECTED = exit 1 with a VIOLATION line and a natively replayed counterexample; UNDECIDED = exit 2; MISSED = exit 0.\n\n| change | verdicts | first counterexample | note |\n|---|---|---|---|\n')
    for r in rows:
        f.write(f"| {r[0]} | {r[1]} | {r[2].replace('|', '/')} | {r[3]} |\n")
n = len(rows); own = sum(1 for r in rows if r[1].split(';')[0].split(': ')[1].startswith('DETECTED')) if rows else 0
anyd = sum(1 for r in rows if 'DETECTED' in r[1])
print(f'{n} changes; detected by the property\'s own check: {own}; by some listed check: {anyd}')
