#!/usr/bin/env python3
"""validate MANIFEST.json and every evidence file against the given schemas"""
import json, sys, glob, jsonschema
ms = json.load(open('/root/.vp/MANIFEST.schema.json')); es = json.load(open('/root/.vp/EVIDENCE.schema.json'))
m = json.load(open('/verif/MANIFEST.json')); jsonschema.validate(m, ms)
props = [json.loads(l)['id'] for l in open('/verif/properties.jsonl')]
claimed = [c['property_id'] for c in m['checks']]; na = [x['property_id'] for x in m.get('not_applicable', [])]
assert sorted(claimed + na) == sorted(props), (sorted(set(props) - set(claimed) - set(na)), 'unaccounted')
bad = 0
for f in sorted(glob.glob('/verif/evidence/C*.json')):
    try:
        jsonschema.validate(json.load(open(f)), es)
    except Exception as e:
        bad += 1; print('INVALID', f, str(e)[:300])
print('manifest ok; claimed', claimed, '; evidence files invalid:', bad)
sys.exit(1 if bad else 0)
