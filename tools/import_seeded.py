#!/usr/bin/env python3
"""import confirmed sub-agent mutations from /tmp/wt-<id>/_out/mut<k> into /verif/seeded/<id>-<k>/"""
import json, os, re, shutil, sys, glob
PREFIX = os.environ.get('WT_PREFIX', '/tmp/wt-')
OFFSET = int(os.environ.get('K_OFFSET', '0'))
logs = "".join(open(f).read() for f in sorted(glob.glob(os.environ.get('CONFIRM_LOGS', '/tmp/confirm-batch*.log'))))
blocks = re.split(r"^== ", logs, flags=re.M)[1:]
for b in blocks:
    head, *rest = b.split("\n")
    pid, k = head.split()
    body = "\n".join(rest)
    if "CONFIRMED=1" not in body:
        print("not confirmed:", pid, k); continue
    src = f"{PREFIX}{pid}/_out/mut{k}"
    dst = f"/verif/seeded/{pid}-{int(k) + OFFSET}"
    if not os.path.isdir(src):
        continue
    os.makedirs(dst, exist_ok=True)
    for f in ("patch.diff", "demo.rs", "demo_location.txt", "notes.md"):
        if os.path.exists(os.path.join(src, f)):
            shutil.copy(os.path.join(src, f), os.path.join(dst, f))
    notes = open(os.path.join(src, "notes.md")).read() if os.path.exists(os.path.join(src, "notes.md")) else ""
    meta_p = os.path.join(dst, "meta.json")
    meta = json.load(open(meta_p)) if os.path.exists(meta_p) else {}
    meta.update({
        "property": pid, "mutation": int(k) + OFFSET, "origin": "fresh sub-agent given only the property text and a scratch worktree",
        "needs_to_manifest": (re.search(r"(?is)(manifest|trigger|needs)[^\n]*\n(.{0,600})", notes) or [None, None, notes[:400]])[2].strip()[:600],
        "confirmed_by_me": {"command": "tools/confirm_mut.sh %s %s (scratch worktree %s%s)" % (pid, k, PREFIX, pid),
                            "demo_on_unchanged": re.search(r"DEMO-UNCHANGED: (.*)", body).group(1),
                            "suite_with_patch": re.search(r"SUITE-MUTATED:\s+(.*)", body).group(1),
                            "demo_with_patch": re.search(r"DEMO-MUTATED:\s+(.*)", body).group(1)[-160:]},
    })
    meta.setdefault("detected_by", {})
    json.dump(meta, open(meta_p, "w"), indent=1)
    print("imported", pid, k)
