#!/usr/bin/env python3
"""(re)generate /verif/MANIFEST.json from the table below; run tools/validate.py afterwards"""
import json, os
V = '/verif'
props = [json.loads(l) for l in open(f'{V}/properties.jsonl')]

CHECKS = {
 'C08': dict(engine='kani', technique='bounded model checking of the compiled Rust (Kani/CBMC, SAT) against an independent civil-arithmetic oracle; full finite domain, unwinding assertions on; counterexamples replayed natively',
   category='model_checking', design_ref='DESIGN.md §3.8',
   text='CBMC decides, for EVERY date in 1970-2200, every month offset landing in 1970-2200, every roll kind/day 1-31 and every modifier, that add_months returns the date given by total-month arithmetic with the roll day capped at the month length; likewise get_imm/get_eom/is_imm/is_eom/is_leap_year/get_roll for every month of the range. The domain is finite and covered completely, so inside the stated range this is a complete decision, not a sample.',
   note='Trusted: Kani/CBMC semantics of MIR, Kani std models, two stubs (PyErr::new -> zeroed token, catch_unwind -> direct call). Adjustment is the identity on the all-business model calendar used (holiday calendars are C04).'),
}
CHECKS.update({
 'C01': dict(engine='mirsym', technique='symbolic execution of the rustc MIR of every Dual operator impl (symbolic variable names and real values), z3 validity query per path against the calculus rules; counterexamples replayed natively',
   category='model_checking', design_ref='DESIGN.md §3.1',
   text='For EVERY operator impl body of Dual that the compiler emitted (all auto_ops owned/borrowed/f64-left/right variants of + - * /, neg, pow with symbolic and concrete exponents, exp, log, norm_cdf, inv_norm_cdf, abs) z3 proves on every feasible path that value = plain formula and that the derivative per variable NAME equals the chain-rule value, for operands with 0..2 (quick) / 0..3 (thorough) variables whose names are symbolic (so every overlap, order, subset and Arc sharing is covered) and whose contents are arbitrary reals in the differentiable domain; plus result well-formedness (vars = union, no duplicates, matching shapes) and no division by zero inside the domain. Arbitrary expression trees follow by structural induction over this one-operator step (paper argument); as a cross-check every expression tree of depth <= 2 over + - * / neg exp log pow (quick; thorough adds every 8th tree of depth 3) is executed through the operator bodies and compared with an independent jet arithmetic.',
   note='Decided over the reals: IEEE rounding/NaN/inf are outside the claim. Trusted: mirsym library models (listed in evidence), uninterpreted transcendentals with listed axioms. Bound: <=2/<=3 variables per operand.'),
 'C02': dict(engine='mirsym', technique='symbolic execution of the rustc MIR of every Dual2 operator impl, z3 validity query per path against first- and second-order chain rules (half-Hessian storage); native replay',
   category='model_checking', design_ref='DESIGN.md §3.2',
   text='Same as C01 for every Dual2 operator impl: value, gradient per name, and Hessian per pair of names equal to the second-order chain rule f_a H_a + f_b H_b + f_aa g_a g_a^T + f_ab(g_a g_b^T + g_b g_a^T) + f_bb g_b g_b^T under the representation invariant (dual2 symmetric = half the Hessian), symmetry of the result, for 0..2 / 0..3 symbolic names per operand; the same expression-tree cross-check as C01 at second order; and the gradient read-back obligations of C17 for Dual2 (so that a Hessian that is stored right but read back in the wrong order is a C02 alarm as well).',
   note='As C01. The Hessian read-back by name (gradient2) and Dual::from(Dual2) are checked under C17/C18.'),
})
CHECKS.update({
 'C03': dict(engine='mirsym', technique='symbolic execution of the MIR of the &T op &T operator bodies and == with symbolic variable names; relational (two-run) validity query per path: a re-layout of an operand gives a name-equivalent result; native replay',
   category='model_checking', design_ref='DESIGN.md §3.3',
   text='For + - * % and == on Dual and Dual2, z3 proves on every feasible path that replacing operand a by ANY re-layout a\' (symbolic name list of length 0..2/0..3: other order, extra names with zero derivative, dropped zero-derivative names, variable list shared with b or not; constrained only to have the same value and the same derivative per name) yields a result that is equal per name, equal under the crate\'s own ==, carries exactly the union of names once each with matching array shapes, that a\'==a, and that a==b holds exactly when values and all per-name derivatives agree (missing name = zero). The shared re-layout helper Vars::to_new_vars is additionally proved on its own for stored and target lists of up to 5 (quick) / 6 (thorough) symbolic names (Dual2 one less): result carries exactly the target list and every derivative / second derivative is kept by NAME. Float-exactness (soft clause): == must be decided on stored values, not on re-associated sums; an alarm needs a natively reproduced witness.',
   note='Reals instead of floats; list lengths <=2 quick / <=3 thorough (<=2 for Dual2); division is covered by C01/C02 clauses (vars = union, shapes).'),
})
CHECKS.update({
 'C17': dict(engine='mirsym', technique='symbolic execution of the MIR of gradient1 / gradient2 / gradient1_manifold (and the Dual2 * and + bodies for the product rule) with symbolic stored and requested name lists; z3 validity query per path; native replay',
   category='model_checking', design_ref='DESIGN.md §3.17',
   text='z3 proves for stored lists of 0..2/0..3 symbolic names and requested lists of 0..2/0..3 symbolic distinct names (equal to, permutation of, subset, superset of or disjoint from the stored list - the solver chooses) that gradient1 returns out[i] = derivative w.r.t. requested name i (0 if absent), gradient2 returns out[i][j] = second derivative by name, gradient1_manifold returns numbers whose value is the first derivative and whose gradient is the matching Hessian row, and that m_a*b + a*m_b reproduces gradient and Hessian of a*b for two Dual2 numbers with 0..2 names.',
   note='Reals instead of floats; requested lists with duplicates are outside the property. Finding fixed: see known_findings.json.'),
})
CHECKS.update({
 'C18': dict(engine='mirsym', technique='symbolic execution of the MIR of set_order/set_order_clone, every From impl and every Number operator body over all kind pairings; oracle = the same operator run on the contained values; z3 validity query per path; native replay',
   category='model_checking', design_ref='DESIGN.md §3.18',
   text='The conversion tables are finite and covered completely: set_order and set_order_clone for 3 source kinds x 3 target orders (value kept; raising a float attaches exactly the requested names, duplicates removed, unit sensitivity, zero Hessian; raising first to second order adds a zero Hessian; lowering drops only higher-order terms), every From impl in from.rs, and every operator body of the generic Number container (+ - * / %, ==, partial_cmp, neg, pow, exp, log, norm_cdf, inv_norm_cdf, abs, sum, zero, one) for all nine kind pairings: the result equals the same operator on the contained values and the two first/second-order pairings end in a panic on every path. Contents are symbolic (names and reals).',
   note='Contained numbers carry 0..1 (quick) / 0..2 (thorough) symbolic names. Reals instead of floats. The contained operators themselves are C01/C02/C19.'),
 'C19': dict(engine='mirsym', technique='symbolic execution of the MIR of every partial_cmp / rem / abs impl and of Sum, Zero, One for Dual and Dual2, z3 validity query per path; plus bounded model checking (Kani/CBMC) of the ordering impls in IEEE-754 semantics over all pairs of 64-bit patterns; native replay',
   category='model_checking', design_ref='DESIGN.md §3.19',
   text='z3 proves on every path: partial_cmp of every dual/dual, dual/float and float/dual impl is the ordering of the values whatever the derivative data; abs negates value and every first/second derivative exactly when the value is negative; every % impl (all owned/borrowed/float-left/right variants) returns a - trunc(a/b) b in value and per-name derivatives for divisors of either sign; Sum over 0..3/0..4 terms equals the per-name sum; zero()/one() are neutral for + and * by name; is_zero <=> value and all derivatives zero. CBMC decides that partial_cmp and < <= > >= on Dual, Dual2 and Number agree with the float operators for EVERY pair of 64-bit patterns.',
   note='M part decided over the reals. K part (ordering): bit-precise, every pair of f64 bit patterns incl. NaN (=> None), signed zeros, infinities, for Dual/Dual, Dual/float, float/Dual, Dual2 likewise and all permitted Number pairings, on numbers without variables; std::hash::RandomState::new stubbed with a fixed key. <=2/<=3 names per operand for the M part.'),
})
CHECKS.update({
 'C07': dict(engine='tables', technique='SMT (z3) decision, per calendar year with a symbolic day, that the holiday table obtained by symbolically executing get_calendar_by_name from the current MIR equals the published rules translated from the <name>_script.py files (independent civil arithmetic and Gregorian computus); fixings files likewise; witnesses replayed natively',
   category='model_checking', design_ref='DESIGN.md §2.3, §3.7',
   text='Complete over the finite domain: for every built-in calendar and every day 1970-01-01..2200-12-31 z3 decides table(d) <=> rules(d) on weekdays (both directions for tgt nyc fed ldn stk osl zur; rule => table for every translatable rule of tro tyo syd wlg mum), fed = nyc minus Good Friday, all/bus empty, week masks, every documented name resolves, and business day <=> publication date over each of the nine fixing histories. The table and week mask are not read from the data files but produced by executing the real constructor (name wiring, date parsing, any post-processing) in mirsym, so a stale map entry, a filter or a changed line all show up.',
   note='Trusted: transcription of pandas Holiday semantics in tables/rules.py; computus. Custom observance functions (tyo equinoxes, wlg Matariki) are outside the one-directional check. Finding fixed: fed wired to nyc (known_findings.json).'),
})
CHECKS.update({
 'C04': dict(engine='mirsym', technique='symbolic execution of the MIR of the provided DateRoll methods (roll and the eight roll_* bodies) with Self = a model calendar whose required methods are uninterpreted predicates of the day; z3 validity query per path against a declarative first-eligible-day oracle; native replay on an explicit calendar built from the model',
   category='model_checking', design_ref='DESIGN.md §3.4',
   text='For each of the 5 modifiers x 2 settlement flags z3 proves on every feasible path, for a symbolic date and ARBITRARY business-day and settlement predicates (every week mask, holiday set and settlement calendar at once), that the result is the first eligible day on/after (F), on/before (P), the modified variants switch direction exactly when the month changes, Act is the identity, eligible inputs are fixed points and adjusting twice equals adjusting once. Bound: runs of ineligible days inside the touched window are at most 3 (quick) / 5 (thorough) long.',
   note='month() of a symbolic date is an uninterpreted month index with the facts the code can observe (monotone, at most one boundary in the window); the real Cal/UnionCal/NamedCal predicates are tied to the model by C06, chrono month arithmetic by C08.'),
 'C05': dict(engine='mirsym', technique='symbolic execution of the MIR of add_bus_days / lag / bus_date_range / add_days on the model calendar; z3 validity query per path against a declarative counting oracle with a universally quantified witness; native replay',
   category='model_checking', design_ref='DESIGN.md §3.5',
   text='On arbitrary calendar predicates and a symbolic start date z3 proves: add_bus_days(n) returns the business day with exactly |n| business days counted from the start (then moved on in the direction of n to a settleable business day when settlement is enforced), Err exactly for a non-business start, the inverse law, lag consistent with the count for business and non-business starts, bus_date_range = exactly the business days of the range in order, add_days = adjust(date+n); n in -3..3 with gap<=3 (quick; more in thorough), the 8-bit extremes on gap-free calendars, and no abort anywhere in the i8 range.',
   note='Larger |n| with holidays in between follows by induction on the loop counter (stated, not solver-checked). For |n|>=2 the week-mask predicate is fixed to true (same business-day predicate space). Finding fixed: lag settlement direction (known_findings.json).'),
 'C20': dict(engine='kani+mirsym', technique='panic reachability: Kani/CBMC harnesses over the compiled code for date arithmetic over the whole i8 / month-offset range; mirsym path exploration where every leaf must be Ok (shape invariant proved by z3) or Err and any Panic leaf inside the documented input range is a violation; native replay',
   category='model_checking', design_ref='DESIGN.md §3.20',
   text='PARTIAL. Decided: add_days / add_months / get_roll never abort for every i8 day count, every month offset landing in 1970-2200, roll days 1-31, all modifiers (K, full range; add_bus_days and lag over the full i8 range in thorough; M: every i8 count on gap-free calendars, n in -2..2 on arbitrary calendars); roll never aborts; Dual/Dual2::try_new (vars 0..3 with duplicates, dual 0..4, dual2 0..10), Ccy/FXPair::try_new, Cal::new with week masks 0-6 return Ok with the shape invariant or Err on every path; the load-time reconstruction that serde calls after parsing (NamedCal / FXRates data model -> object) returns a value or an error, never aborts, for saved names that try_new refuses and for every quote-list structure with 1..2 quotes combined with a currency list that is as saved / empty / short / reversed / extended (i.e. documents whose VALUES were altered, deleted or duplicated). NOT decided: the JSON text level itself (serde_json parser and derive visitors are outside reach; type-level damage is rejected there) - stated in DESIGN §4.',
   note='FXRates/NamedCal/PPSpline constructors are exercised for panics inside C09/C06/C15. Findings fixed: add_days(i8::MIN); from_json aborting on altered NamedCal / FXRates documents.'),
})
CHECKS.update({
 'C06': dict(engine='mirsym', technique='symbolic execution of the MIR of the DateRoll impls of Cal/UnionCal/NamedCal/CalType over member calendars with free (uninterpreted) holiday sets and week masks, of NamedCal::try_new on grammar strings compared for a symbolic date with the explicit combination, and of the == impls with the date range summarised by one symbolic day; z3 validity per path; native replay',
   category='model_checking', design_ref='DESIGN.md §3.6',
   text='z3 proves for a symbolic date and ARBITRARY member calendars (free holiday sets and week masks; 1..3 members; none/0/1/2 settlement calendars) that a combined calendar is a business day iff every member is, a settlement day iff every settlement calendar is a business day (always if none), weekday/holiday as documented, for UnionCal, NamedCal and all CalType variants; that a calendar named by each string of the grammar (case variants, commas, one pipe, same name on both sides) equals, date for date, the explicit UnionCal of its parts built from the real tables, and that unknown parts / empty parts / more than one pipe give Err; that each per-day term of the hand-written == impls is exactly agreement on business-day and settlement status; cal_date_range enumerates consecutive days.',
   note='The 84k-day loop of == is summarised by one symbolic day (range summary checked separately on 1..5-day ranges). <=3 members. Name->table wiring is C07.'),
})
CHECKS.update({
 'C13': dict(engine='mirsym', technique='symbolic execution of the MIR of dsolve/fdsolve (generic bodies instantiated at f64, Dual, Dual2) in exact fraction arithmetic over every pivot-choice path; A x = b and its per-name derivative forms decided as polynomial identities (ring normal form by z3, SMT fallback); non-singular => non-zero pivots decided by z3 with the path conditions; native replay',
   category='model_checking', design_ref='DESIGN.md §3.13',
   text='For fully symbolic real matrices of size 1..3 and tall 3x2 (thorough: 4x2) systems with least squares - and in the thorough tier size 4 / 4x3 with a symbolic right-hand side and a matrix that is concrete or concrete except one symbolic entry (each position) - on EVERY pivot path the returned x satisfies A x = b (normal equations for least squares) as an exact algebraic identity given non-zero pivots; a non-singular matrix never leads to a zero pivot (n<=3); Dual/Dual2 entries (2x2, shared variable list) satisfy A x = b in every first and second derivative, also with float A and dual b; a row-swapped system gives the same x.',
   note='Exact arithmetic (rounding/conditioning outside). Dual entries share one variable list (layouts are C03). Fully symbolic 4x4 does not fit in memory (DESIGN 8.2).'),
})
CHECKS.update({
 'C09': dict(engine='mirsym', technique='symbolic execution of the MIR of FXRates::try_new / create_fx_array / mut_arrays_remaining_elements (recursive) with symbolic positive rates on every canonical quote-list structure; exact fraction arithmetic; z3 validity query per structure against the tree path-product oracle; native replay',
   category='model_checking', design_ref='DESIGN.md §3.9',
   text='For EVERY quote-list structure with 1..3 (quick) / 1..4 (thorough) quotes - every choice of quoted pairs, orientation, quote order and base, canonical up to renaming currencies - and symbolic positive rates: a spanning tree with consistent settlement is accepted and all n*n rates equal the product of quotes (inverted where travelled backwards) along the unique path, the diagonal is 1, quoted pairs are returned structurally unchanged, currencies are ordered base-first; every other structure (under/over-specified, cyclic, repeated or inverse pair, base outside the quotes, inconsistent settlement) ends in Err - never Ok, never an abort or non-termination. Beyond 4 quotes, representative large markets (chain, star, pseudo-random tree; thorough also star-on-last and caterpillar) over 6, 9, 12 (quick) / 6..13 (thorough) currencies are run the same way, with integer overflow of the edge counters treated as an abort. Float-exactness (soft clause): a quoted value must reach the matrix without any floating-point operation; an alarm needs a natively reproduced witness.',
   note='Structures are enumerated (finite discrete space); the solver quantifies over rates. Complete enumeration only up to 4 quotes (5 currencies); the large markets are single representatives per shape and size. Exact arithmetic.'),
 'C10': dict(engine='mirsym', technique='same encoding as C09 run through operation histories (set_ad_order, update, rejected update) with symbolic old/new rates; after every step the whole matrix is compared by z3 with the closed form of the latest quotes incl. first/second sensitivities by variable name; native replay',
   category='model_checking', design_ref='DESIGN.md §3.10',
   text='For every spanning-tree structure with 1..3 quotes (3 quotes: five histories in the quick tier, all in the thorough tier) and every operation sequence of length <=2 (<=3) over set_ad_order, update, update of an unknown pair, update with a settlement date the rest of the market does not have: after construction and after each step every cross rate equals the path product of the LATEST quotes, its sensitivity to quote k is reported under fx_<pair> (a dual-valued quote keeps its own variable) and equals +-cross/q_k on the path and 0 off it, second order s_i s_j cross/(q_i q_j) resp. s_i(s_i-1)cross/q_i^2, switching order never changes a value, refused updates (unknown pair; inconsistent settlement date) leave the state unchanged, also as seen by every LATER step (a refused quote never goes live).',
   note='Each step is compared with the closed form of the latest quotes (the inductive invariant), so longer histories follow step by step; explicit histories are bounded.'),
})
CHECKS.update({
 'C11': dict(engine='kani+mirsym', technique='Kani/CBMC harnesses for index_left over every strictly increasing i64 list of a given length; symbolic execution of the MIR of CurveDF::try_new and the five interpolators with symbolic node dates/values/query date, z3 validity per path against a declarative adjacent-pair oracle; native replay',
   category='model_checking', design_ref='DESIGN.md §3.11',
   text='Interval selection: for EVERY strictly increasing list of 2..6 (quick) / 2..9 (thorough) 64-bit keys and every query value the selected interval is the one whose right end is the first key >= x, clamped (CBMC, bit-precise). Formulas: for 2..4 / 2..6 nodes with symbolic distinct dates (all supply orders through the real sort), symbolic positive values and a symbolic query date before/at/between/after the nodes, each of the five rules returns its closed form on the adjacent pair selected by that rule (log-type rules compared in log space as exact rational identities), the node value at a node (1 at the first node for the zero-rate rule), linear results lie between the node values.',
   note='Reals; ln/exp uninterpreted with exp(ln y)=y on node values; dates at midnight; >6 nodes only through the index logic. Interval guards are settled against the integer part of the path condition; polynomial identities are discharged by normal form (z3, then exact expansion in sympy) before the solver is asked.'),
 'C12': dict(engine='mirsym', technique='symbolic execution of the MIR of set_ad_order / interpolated_value / index_value / nodes_into_order with symbolic nodes and query, through switch sequences; z3 validity per path of gradient/Hessian-by-name against the derivatives of the closed form; native replay against finite differences of the closed form evaluated independently',
   category='model_checking', design_ref='DESIGN.md §3.12',
   text='For every rule, 2..3 (quick) / 2..4 nodes with symbolic dates and values and a symbolic query date: every sequence of order switches (length <=2 / <=3) keeps every looked-up value; after raising float nodes the node at sorted position i carries exactly the tag <id>i with unit sensitivity (also through nodes_into_order on unsorted supply); the gradient and Hessian of a looked-up value, read by variable name, equal the first and second derivatives of the closed form w.r.t. the two active node values and are zero elsewhere; nodes that already are Dual/Dual2 (one shared user variable or separate ones, symbolic sensitivities) keep their names through 1<->2 switches and obey the chain rule; index value = base/value, 0 before the first node, Err without base.',
   note='Reals; uses the C01/C02 operator bodies (interpreted again).'),
})
CHECKS.update({
 'C14': dict(engine='mirsym', technique='symbolic execution of the MIR of bsplev_single_f64 / bspldnev_single_f64 (recursive) with a symbolic evaluation point on concrete knot families (plus symbolic knots a<b<c in thorough); z3 validity per path against exact reference polynomial pieces; native replay',
   category='model_checking', design_ref='DESIGN.md §3.14',
   text='For orders k = 1..5 (quick) / 1..6 and knot vectors with k-fold ends and none/one/two/non-uniform/repeated interior knots, with the evaluation point SYMBOLIC over the whole domain (every span, interior knot and both end points reached through the path forks): every basis function is non-negative, vanishes outside its k spans, all sum to one, and the value returned for derivative order m = 0..k equals the m-th derivative of the Cox-de Boor polynomial of the active span (right-hand span; left-hand one at the right end point), zero for m >= k. Reference pieces are computed independently in exact rational arithmetic.',
   note='Reals. Knot values are concrete families (symbolic x); fully symbolic knot vectors and k>6 are outside.'),
 'C15': dict(engine='mirsym', technique='symbolic execution of the MIR of PPSpline::new/csolve/bsplmatrix/ppdnev_single(_dual/_dual2)/mapped_value (with the fdsolve and B-spline bodies underneath) on concrete layouts with symbolic data, polynomial coefficients and evaluation point; z3 validity per path; native replay',
   category='model_checking', design_ref='DESIGN.md §3.15',
   text='On each layout (quick: 7 layouts with k=2..5, 3-6 sites, uneven sites and knots, a repeated interior knot, natural-spline and first-derivative end conditions; thorough: 11 layouts incl. k=6 and k=5 with interior knots): the solved spline meets every datum (value at interior sites, requested derivative at the end sites) for symbolic data; for data taken from a polynomial of degree < k with symbolic coefficients the spline and ALL its derivatives equal the polynomial at a symbolic x; with Dual/Dual2 data the sensitivity to datum j equals the spline of unit data e_j and there is no second-order term; a Dual/Dual2 abscissa carrying TWO variables (symbolic first-order coefficients g, symbolic symmetric second-order block h) returns s, s\'(x)g_a, s\'\'(x)g_a g_b + 2 s\'(x)h_ab by name; the 3x3 spline-type x abscissa-type table incl. the two refusing pairs; site-count mismatches and evaluation before solving give Err (no abort).',
   note='Concrete knots/sites (symbolic ones are outside); reals.'),
})
CHECKS.update({
 'C16': dict(engine='mirsym', technique='PARTIAL: (a) the MIR of serde_json f64_from_parts (as compiled with the repo feature set) interpreted in IEEE-754 semantics with z3 FloatingPoint against a correctly-rounded specification in 128-bit integers, candidates replayed through the real to_json/from_json; (b) symbolic execution of the two From<...DataModel> rebuild-on-load conversions, rebuilt object proved equal to the original; native JSON round-trip replay',
   category='other', design_ref='DESIGN.md §3.16, §4',
   text='Partial by design (the serde-derive visitors, bincode and third-party Serialize impls cannot be encoded within reach and are assumed by contract). What IS decided: (a) for all 9*10^16 seventeen-digit decimals in [1,10) the number kernel of the JSON reader returns the double whose half-ulp neighbourhood contains the decimal - or, when the float_roundtrip feature routes parsing to serde_json::lexical, the obligation is discharged by that crate\'s documented contract (stated in the evidence); (b) NamedCal and FXRates rebuilt from their saved data model (name only / quotes + currency order, also after an update) equal the original: same members, same currency order, same rates and first-order sensitivities.',
   note='A change such as #[serde(skip)] on a stored field is NOT detected by this check. Finding fixed: serde_json default number parser (known_findings.json).'),
})
NA_REASON = 'no registered check in this revision yet (work in progress; planned solver-based check described in DESIGN.md §3) — not claimed'

checks = []
for p in props:
    c = CHECKS.get(p['id'])
    if not c: continue
    checks.append({
        'property_id': p['id'],
        'quick_cmd': f"./check {p['id']} --tier quick",
        'thorough_cmd': f"./check {p['id']} --tier thorough",
        'evidence_file': f"/verif/evidence/{p['id']}.json",
        'replay_cmd_template': f"./check {p['id']} --replay {{path}}",
        'engine': c['engine'],
        'level_claimed': {'category': c['category'], 'text': c['text'], 'design_ref': c['design_ref']},
        'level_note': c['note'],
        'technique': c['technique'],
    })
na = [{'property_id': p['id'], 'reason': NA.get(p['id'], NA_REASON) if (NA := globals().get('NA_SPECIFIC', {})) is not None else NA_REASON}
      for p in props if p['id'] not in CHECKS]
m = {
 'version': 1,
 'setup_cmd': './setup.sh',
 'hooks': {'guard': 'cargo feature verif-hooks', 'enable': 'cargo ... --features verif-hooks (path dependency rateslib = { path = "/repo", features = ["verif-hooks"] })',
           'baseline_off_cmd': 'cd /repo && cargo nextest run --workspace --no-fail-fast --test-threads 8 --offline || cargo test --workspace --no-fail-fast --offline',
           'source_commits': [l.split()[0] for l in os.popen("git -C /repo log --format='%h %s' | grep -i '^[0-9a-f]* verif hooks'").read().splitlines()],
           'add_only': True},
 'engines': [
   {'name': 'kani', 'path': '/verif/kani', 'serves_properties': ['C08', 'C11', 'C20', 'C04'], 'kind_free_text': 'Kani 0.68 / CBMC 6.11 proof harnesses over the compiled crate (path dependency on /repo), native replay binary in the same crate'},
   {'name': 'mirsym', 'path': '/verif/mirsym', 'serves_properties': ['C01','C02','C03','C04','C05','C06','C09','C10','C11','C12','C13','C14','C15','C16','C17','C18','C19','C20'], 'kind_free_text': 'symbolic executor for rustc MIR (regenerated from /repo on every run) discharging path obligations with z3'},
   {'name': 'tables', 'path': '/verif/tables', 'serves_properties': ['C07'], 'kind_free_text': 'SMT encoding of the static holiday tables against the published rules over a symbolic day'},
 ],
 'checks': checks,
 'not_applicable': na,
 'notes': 'Technique family: solver-based checking of the real code. Exit codes: 0 held, 1 VIOLATION (replayed natively first), 2 undecided / build error / encoding mismatch (never reported as success). See DESIGN.md.',
}
json.dump(m, open(f'{V}/MANIFEST.json', 'w'), indent=1)
print('claimed:', [c['property_id'] for c in checks])
