#!/bin/bash
# run every registered check of one tier against /repo, one after the other; summary on stdout.  usage: run_all.sh quick|thorough [ids...]
tier=${1:-quick}; shift
ids=${@:-C01 C02 C03 C04 C05 C06 C07 C08 C09 C10 C11 C12 C13 C14 C15 C16 C17 C18 C19 C20}
cd /verif
for id in $ids; do
  t0=$(date +%s)
  out=$(./check $id --tier $tier 2>&1); rc=$?
  echo "[$id $tier rc=$rc $(( $(date +%s) - t0 ))s] $(echo "$out" | grep -E 'VIOLATION|KNOWN-FINDING|UNDECIDED|ERROR' | head -3 | cut -c1-400)"
done
