#!/bin/bash
# apply a seeded patch to /repo, run the given checks (quick), undo.  usage: try_mut.sh <patch.diff> C01 [C03 ...]
p=$1; shift
git -C /repo apply "$p" || { echo "PATCH-DOES-NOT-APPLY"; exit 9; }
for c in "$@"; do
  s=$(date +%s)
  out=$(cd /verif && ./check $c --tier quick 2>&1); rc=$?
  echo "== $c rc=$rc $(( $(date +%s) - s ))s"; echo "$out" | grep -E "VIOLATION|KNOWN-FINDING|UNDECIDED|OK property|counterexample|BUILD-ERROR|INTERNAL" | cut -c1-400 | head -8
done
git -C /repo checkout -- . ; git -C /repo status --short | grep -v '^??' 
