#!/bin/bash
# confirm a sub-agent mutation in its scratch worktree: usage confirm_mut.sh C08 1
# checks: patch applies to clean HEAD; suite 229/0 with patch; demo fails with patch; demo passes without
id=$1; k=$2; wt=${WT_PREFIX:-/tmp/wt-}$id; out=$wt/_out/mut$k
cd $wt || exit 9
git checkout -q -- . 2>/dev/null
git status --short | grep -v '^??' && { echo "worktree dirty"; exit 9; }
loc=$(ls tests/demo_${id}_${k}.rs 2>/dev/null)
if [ -z "$loc" ]; then echo "NO-INTEGRATION-DEMO (see demo_location.txt)"; cat $out/demo_location.txt; exit 8; fi
res="{}"
r0=$(cargo test --offline -j 6 --test demo_${id}_${k} 2>&1 | grep -E '^test result' | tail -1)
git apply $out/patch.diff || { echo "patch does not apply"; exit 7; }
r1=$(cargo test --offline -j 6 --lib 2>&1 | grep -E '^test result' | tail -1)
r2=$(cargo test --offline -j 6 --test demo_${id}_${k} 2>&1 | grep -E '^test result|panicked' | tail -3 | tr '\n' ' ')
git checkout -q -- .
echo "DEMO-UNCHANGED: $r0"
echo "SUITE-MUTATED:  $r1"
echo "DEMO-MUTATED:   $r2"
ok=1
echo "$r0" | grep -q 'ok\. .* 0 failed' || ok=0
echo "$r1" | grep -q 'ok\. 229 passed; 0 failed' || ok=0
echo "$r2" | grep -q 'FAILED' || ok=0
echo "CONFIRMED=$ok"
