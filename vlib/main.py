import argparse, importlib, sys, traceback
from . import common


def main():
    ap = argparse.ArgumentParser()
    ap.add_argument("prop")
    ap.add_argument("--tier", default=None)
    ap.add_argument("--replay", default=None)
    a = ap.parse_args()
    tier, seed = common.tier_seed(a.tier)
    import os
    os.environ["VERIF_TIER"] = tier        # deadlines and budgets further down read the tier from the environment
    try:
        mod = importlib.import_module("specs." + a.prop)
    except ModuleNotFoundError as e:
        print(f"no check for {a.prop}: {e}")
        sys.exit(2)
    except Exception:
        traceback.print_exc()
        print("INTERNAL-ERROR while loading the check; nothing decided")
        sys.exit(2)
    try:
        if a.replay:
            sys.exit(mod.replay(a.replay))
        mod.run(tier, seed)
    except common.BuildError as e:
        print("BUILD-ERROR (tree does not build; nothing decided):\n" + str(e))
        sys.exit(2)
    except SystemExit:
        raise
    except Exception:
        traceback.print_exc()
        print("INTERNAL-ERROR in the checking machinery; nothing decided")
        sys.exit(2)


if __name__ == "__main__":
    main()
