"""Generic driver for properties (or parts of properties) decided by Kani harnesses."""
import json, os, time
from . import common as C


def run_kani_part(pid, harnesses, timeout, jobs, seed):
    """Runs harnesses; for each failing one obtains the counterexample, decodes and replays it natively.
    Returns dict with results, violations (list of (role, replay_path, text)), undecided list."""
    t0 = time.time()
    build_s = C.kani_build()
    res = C.kani_run_many(harnesses, timeout, jobs=jobs, seed=seed)
    sch = C.kani_schema()
    violations, undecided, samples = [], [], []
    n = 0
    for h in harnesses:
        r = res[h]
        if r["status"] == "success":
            if r.get("cover_total", 0) and r.get("cover_sat", 0) < r.get("cover_total", 0):
                undecided.append(f"{h}: vacuity witness unreachable")
            continue
        if r["status"] == "undecided":
            undecided.append(f"{h}: {r.get('why','?')}")
            continue
        # failed: get counterexample(s) and replay natively
        pb = C.kani_run_one(h, timeout, playback=True)
        tests = [t for t in pb.get("playback", []) if t["for"] != "cover"]
        if not tests:
            undecided.append(f"{h}: FAILED but no counterexample could be extracted")
            continue
        seen = set()
        confirmed = False
        for t in tests:
            ints = C.decode_vals(sch[h], t["bytes"])
            key = tuple(ints)
            if key in seen:
                continue
            seen.add(key)
            rp = C.native_replay(h, ints)
            reproduces = any(rc == 1 for rc, _ in rp.values())
            n += 1
            obj = {"property": pid, "engine": "kani", "harness": h, "inputs": dict(zip([a for a, _ in sch[h]], ints)),
                   "ints": ints, "failed_checks": r.get("failed_checks"), "kani_check": t["desc"], "native_replay": rp}
            path = C.save_replay(pid, f"{h}-{n}", obj)
            if reproduces:
                confirmed = True
                violations.append(({"harness": h, **obj["inputs"]}, path, f"{h} inputs={obj['inputs']} :: " + "; ".join(m for _, m in rp.values())))
        if not confirmed:
            undecided.append(f"{h}: solver counterexample does not reproduce natively (ENCODING-MISMATCH)")
    return {"results": res, "violations": violations, "undecided": undecided, "build_s": build_s,
            "wall_s": time.time() - t0, "schema": {h: sch.get(h) for h in harnesses}}


def replay_file(path):
    obj = json.load(open(path))
    rp = C.native_replay(obj["harness"], obj["ints"])
    print(json.dumps(rp, indent=1))
    return 1 if any(rc == 1 for rc, _ in rp.values()) else 0
