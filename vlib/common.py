"""Shared infrastructure for the /verif checks: paths, tiers, evidence files, known findings,
MIR dump cache, Kani runner, native replay.  Nothing here decides a property; the deciding step is
always a solver verdict obtained by the engines (Kani/CBMC, mirsym+z3, table encoder+z3)."""
import hashlib, json, os, re, subprocess, sys, time, shutil

VERIF = os.path.dirname(os.path.dirname(os.path.abspath(__file__)))
REPO = os.environ.get("VERIF_REPO", "/repo")
WORK = os.environ.get("VERIF_WORK") or os.path.join(VERIF, ".work")
EXPERIMENT = os.path.realpath(REPO) != "/repo"      # a scratch copy of the repository (seeded-change experiments only; never registered)
EVID = os.path.join(WORK, "evidence") if EXPERIMENT else os.path.join(VERIF, "evidence")
ENV = dict(os.environ, CARGO_NET_OFFLINE="true", CARGO_TERM_COLOR="never")
NCPU = os.cpu_count() or 4

EXIT_OK, EXIT_VIOLATION, EXIT_UNDECIDED = 0, 1, 2


def crate_dir(name):
    """the harness / replay crates name the repository as path dependency /repo; for an experiment on a scratch copy
    (VERIF_REPO) a copy of the crate with the path rewritten is used, under VERIF_WORK"""
    src = os.path.join(VERIF, name)
    if not EXPERIMENT:
        return src
    dst = os.path.join(WORK, name + "-src")
    os.makedirs(dst, exist_ok=True)
    subprocess.run(["rsync", "-a", "--delete", "--exclude", "target", "--exclude", "Cargo.lock", src + "/", dst + "/"], check=True)
    p = os.path.join(dst, "Cargo.toml")
    t = open(p).read().replace('path = "/repo"', 'path = "%s"' % os.path.realpath(REPO))
    open(p, "w").write(t)
    return dst


def tier_seed(argv_tier=None):
    tier = argv_tier or os.environ.get("VERIF_TIER") or "quick"
    if tier not in ("quick", "thorough"):
        tier = "quick"
    try:
        seed = int(os.environ.get("VERIF_SEED", "0"))
    except ValueError:
        seed = 0
    return tier, seed


def sh(cmd, cwd=None, timeout=None, env=None, mem_gb=None):
    """run a command, return (rc, output, seconds); rc=124 on timeout"""
    t0 = time.time()
    pre = None
    if mem_gb:
        import resource
        def pre():
            lim = int(mem_gb * (1 << 30))
            resource.setrlimit(resource.RLIMIT_AS, (lim, lim))
    try:
        p = subprocess.run(cmd, cwd=cwd, env=env or ENV, stdout=subprocess.PIPE, stderr=subprocess.STDOUT,
                           timeout=timeout, shell=isinstance(cmd, str), preexec_fn=pre)
        return p.returncode, p.stdout.decode("utf-8", "replace"), time.time() - t0
    except subprocess.TimeoutExpired as e:
        out = (e.stdout or b"").decode("utf-8", "replace")
        return 124, out, time.time() - t0


# --------------------------------------------------------------------------- repo fingerprint
def repo_hash():
    """content hash of every file of REPO outside target/ and .git/ (checks rebuild from the working tree)"""
    h = hashlib.sha256()
    for root, dirs, files in os.walk(REPO):
        dirs[:] = sorted(d for d in dirs if not (root == REPO and d in ("target", ".git")) and d != "__pycache__")
        for f in sorted(files):
            p = os.path.join(root, f)
            rel = os.path.relpath(p, REPO)
            if not (rel.startswith("rust/") or rel.startswith("python/rateslib/") or rel in ("Cargo.toml", "Cargo.lock")):
                continue
            if rel.endswith((".pyc", ".so")):
                continue
            try:
                with open(p, "rb") as fh:
                    data = fh.read()
            except OSError:
                continue
            h.update(rel.encode()); h.update(b"\0"); h.update(hashlib.sha256(data).digest())
    return h.hexdigest()[:20]


# --------------------------------------------------------------------------- MIR dump (engine M)
def mir_dump(package=None, force=False):
    """Return path of the MIR text of REPO's lib crate as compiled NOW (features verif-hooks).
    Regenerated whenever the working tree changes (cache key = repo_hash)."""
    os.makedirs(WORK, exist_ok=True)
    key = repo_hash()
    name = f"mir-{package or 'rateslib'}-{key}.txt"
    path = os.path.join(WORK, name)
    if os.path.exists(path) and os.path.getsize(path) > 1000 and not force:
        return path
    # clean older dumps of the same package
    for f in os.listdir(WORK):
        if f.startswith(f"mir-{package or 'rateslib'}-") and f != name:
            fp = os.path.join(WORK, f)
            try:
                if ".tmp" in f and time.time() - os.path.getmtime(fp) < 3600:
                    continue          # another check is writing this dump right now
                os.remove(fp)
            except OSError: pass
    tdir = os.path.join(WORK, "mir-target")
    nonce = "mirsym_run_%d_%d" % (os.getpid(), int(time.time()))
    if package:
        cmd = ["cargo", "+nightly", "rustc", "--offline", "--manifest-path", os.path.join(REPO, "Cargo.toml"),
               "-p", package, "--target-dir", tdir, "--", "-Zunpretty=mir", "-C", "debug-assertions=off",
               "-C", "overflow-checks=on", "--cfg", nonce]
    else:
        cmd = ["cargo", "+nightly", "rustc", "--offline", "--manifest-path", os.path.join(REPO, "Cargo.toml"),
               "--lib", "--features", "verif-hooks", "--target-dir", tdir, "--", "-Zunpretty=mir",
               "-C", "debug-assertions=off", "-C", "overflow-checks=on", "--cfg", nonce]
    tmp = path + ".tmp%d" % os.getpid()
    t0 = time.time()
    with open(tmp, "wb") as out:
        p = subprocess.run(cmd, env=ENV, stdout=out, stderr=subprocess.PIPE, timeout=1800)
    if p.returncode != 0 or os.path.getsize(tmp) < 1000:
        err = p.stderr.decode("utf-8", "replace")[-3000:]
        try: os.remove(tmp)
        except OSError: pass
        raise BuildError("MIR dump failed (the tree does not compile?):\n" + err)
    os.replace(tmp, path)
    return path


class BuildError(Exception):
    pass


# --------------------------------------------------------------------------- evidence
class Evidence:
    def __init__(self, pid, tier, seed, level):
        self.d = {"property_id": pid, "tier": tier, "seed": seed, "level": level,
                  "coverage": {}, "assumptions": [], "wall_s": 0.0, "violations": 0}
        self.t0 = time.time()
        # counterexample files of earlier runs of this property are stale
        rd = os.path.join(EVID, "replay")
        if os.path.isdir(rd):
            for f in os.listdir(rd):
                if f.startswith(pid + "-"):
                    try: os.remove(os.path.join(rd, f))
                    except OSError: pass

    def cov(self, **kw):
        self.d["coverage"].update(kw)

    def assume(self, *a):
        for x in a:
            if x not in self.d["assumptions"]:
                self.d["assumptions"].append(x)

    def write(self, extra=None):
        os.makedirs(EVID, exist_ok=True)
        self.d["wall_s"] = round(time.time() - self.t0, 2)
        if extra:
            self.d.update(extra)
        self.d["repo_tree_hash"] = repo_hash()
        path = os.path.join(EVID, self.d["property_id"] + ".json")
        with open(path, "w") as f:
            json.dump(self.d, f, indent=1, default=str)
        return path


# --------------------------------------------------------------------------- known findings
def known_findings():
    p = os.path.join(VERIF, "known_findings.json")
    if not os.path.exists(p):
        return []
    with open(p) as f:
        return json.load(f).get("findings", [])


def match_known(pid, role):
    """role: dict describing the violation by role (site + input class). Returns the matching open finding or None.
    Entries with status 'fixed' never suppress anything."""
    for k in known_findings():
        if k.get("property") != pid or k.get("status") != "open":
            continue
        m = k.get("match", {})
        if all(str(role.get(a)) == str(b) for a, b in m.items()):
            return k
    return None


def save_replay(pid, n, obj):
    d = os.path.join(EVID, "replay")
    os.makedirs(d, exist_ok=True)
    p = os.path.join(d, f"{pid}-{n}.json")
    with open(p, "w") as f:
        json.dump(obj, f, indent=1, default=str)
    return p


# --------------------------------------------------------------------------- engine K: Kani
KANI_DIR = crate_dir("kani")
KANI_TARGET = os.path.join(WORK, "kani-target")


def kani_schema():
    """harness -> list of (name, type) parsed from kani/src/harness.rs (the order symbolic inputs are drawn)"""
    src = open(os.path.join(KANI_DIR, "src", "harness.rs")).read()
    sch = {}
    for m in re.finditer(r"harness(?:_f)?!\((\w+),\s*\d+,\s*\|([^|]*)\|", src):
        sch[m.group(1)] = [tuple(x.strip() for x in a.split(":")) for a in m.group(2).split(",") if a.strip()]
    for m in re.finditer(r"index_left_harness!\((\w+),\s*(\d+)\)", src):
        n = int(m.group(2))
        sch[m.group(1)] = [(f"xs{i}", "i64") for i in range(n)] + [("v", "i64")]
    return sch


def _kani_prepare():
    os.makedirs(WORK, exist_ok=True)
    lock_src = os.path.join(REPO, "Cargo.lock")
    lock_dst = os.path.join(KANI_DIR, "Cargo.lock")
    try:
        if open(lock_src, "rb").read() != (open(lock_dst, "rb").read() if os.path.exists(lock_dst) else b""):
            shutil.copy(lock_src, lock_dst)
    except OSError:
        pass


def kani_build(timeout=1500):
    """compile every harness once (so the parallel verification runs only start CBMC)"""
    _kani_prepare()
    rc, out, dt = sh(["cargo", "kani", "-Z", "stubbing", "--only-codegen", "--target-dir", KANI_TARGET],
                     cwd=KANI_DIR, timeout=timeout)
    if rc != 0:
        raise BuildError("cargo kani --only-codegen failed:\n" + out[-4000:])
    return dt


def kani_run_one(h, timeout, playback=False, mem_gb=12):
    cmd = ["cargo", "kani", "-Z", "stubbing", "--harness", "harness::" + h, "--exact", "--target-dir", KANI_TARGET, "--output-format", "terse"]
    if playback:
        cmd[2:2] = ["-Z", "concrete-playback", "--concrete-playback=print"]
    rc, out, dt = sh(cmd, cwd=KANI_DIR, timeout=timeout, mem_gb=None)
    r = {"harness": h, "rc": rc, "wall_s": round(dt, 2), "status": "undecided", "raw_tail": out[-1500:]}
    m = re.search(r"Verification Time: ([0-9.]+)s", out)
    if m: r["solver_s"] = float(m.group(1))
    m = re.search(r"\*\* (\d+) of (\d+) failed", out)
    if m: r["checks_failed"], r["checks"] = int(m.group(1)), int(m.group(2))
    m = re.search(r"\*\* (\d+) of (\d+) cover properties satisfied", out)
    if m: r["cover_sat"], r["cover_total"] = int(m.group(1)), int(m.group(2))
    r["stubs"] = sorted(set(re.findall(r"- Stub: (\S+)", out)))
    if rc == 124:
        r["status"] = "undecided"; r["why"] = "timeout"
    elif "VERIFICATION:- SUCCESSFUL" in out:
        r["status"] = "success"
    elif "VERIFICATION:- FAILED" in out:
        fails = re.findall(r"Failed Checks: (.*)", out)
        r["failed_checks"] = fails
        if "Status: ERROR" in out or "CBMC failed" in out or "out of memory" in out.lower() or not fails:
            r["status"] = "undecided"; r["why"] = "solver error / no failed check listed"
        elif any("unwinding assertion" in f for f in fails):
            r["status"] = "undecided"; r["why"] = "unwinding bound too small: " + "; ".join(fails)
        else:
            r["status"] = "failed"
    else:
        r["why"] = "no verdict in output (compile error / ICE?)"
    if playback:
        r["playback"] = parse_playback(out)
    return r


def parse_playback(out):
    """list of tests; each test = list of byte lists"""
    tests = []
    for m in re.finditer(r"fn kani_concrete_playback_(\w+?)_\d+\(\) \{(.*?)kani::concrete_playback_run", out, re.S):
        body = m.group(2)
        vals = [[int(x) for x in v.split(",") if x.strip()] for v in re.findall(r"vec!\[([0-9, ]*)\],", body)]
        chk = re.search(r"Check for `(\w+)`: \"(.*?)\"", out[max(0, m.start() - 900):m.start()])
        tests.append({"harness": m.group(1), "bytes": vals, "for": chk.group(1) if chk else "?",
                      "desc": chk.group(2) if chk else ""})
    return tests


def decode_vals(schema, byte_vecs):
    out = []
    for (name, ty), bs in zip(schema, byte_vecs):
        v = int.from_bytes(bytes(bs), "little", signed=False)
        if ty.startswith("i"):
            bits = 8 * len(bs)
            if v >= 1 << (bits - 1):
                v -= 1 << bits
        out.append(v)
    return out


def kani_run_many(harnesses, timeout, jobs=8, seed=0):
    from concurrent.futures import ThreadPoolExecutor
    hs = list(harnesses)
    if seed:
        import random
        random.Random(seed).shuffle(hs)
    with ThreadPoolExecutor(max_workers=jobs) as ex:
        res = list(ex.map(lambda h: kani_run_one(h, timeout), hs))
    return {r["harness"]: r for r in res}


_replay_built = {}


def replay_build(profile):
    if profile in _replay_built:
        return _replay_built[profile]
    _kani_prepare()
    cmd = ["cargo", "build", "--offline", "--bin", "replay", "--target-dir", os.path.join(WORK, "replay-target")]
    if profile == "release":
        cmd.append("--release")
    rc, out, dt = sh(cmd, cwd=KANI_DIR, timeout=1800)
    if rc != 0:
        raise BuildError("native replay build failed:\n" + out[-3000:])
    p = os.path.join(WORK, "replay-target", "release" if profile == "release" else "debug", "replay")
    _replay_built[profile] = p
    return p


def native_replay(harness, ints, profiles=("dev", "release")):
    """returns dict profile -> (rc, message). rc: 0 holds, 1 violated, 3 precondition false"""
    res = {}
    for prof in profiles:
        exe = replay_build(prof)
        rc, out, _ = sh([exe, harness] + [str(i) for i in ints], timeout=120)
        msg = [l for l in out.splitlines() if l.startswith("REPLAY")]
        res[prof] = (rc, msg[-1] if msg else out[-300:])
    return res


def finish(ev, violations, undecided, known_lines=()):
    """common exit protocol"""
    for l in known_lines:
        print(l)
    ev.d["violations"] = len(violations)
    ev.d["undecided"] = undecided
    path = ev.write()
    for v in violations:
        print(f"VIOLATION property={ev.d['property_id']} replay={v}")
    if violations:
        sys.exit(EXIT_VIOLATION)
    if undecided:
        print(f"UNDECIDED property={ev.d['property_id']}: {undecided}")
        sys.exit(EXIT_UNDECIDED)
    print(f"OK property={ev.d['property_id']} tier={ev.d['tier']} evidence={path}")
    sys.exit(EXIT_OK)
